/* drv_c16 - C16: DTLS survives loss / reorder / duplication and never accepts a record twice.
 *
 * World: DTLS client + server, the wire is a list of datagrams, the retransmission timer is
 * an explicit action.  Default schedule = in-order lossless delivery (timeouts only when
 * nothing is in flight and the handshake is incomplete).  A deviation is one of
 * {drop, duplicate, reorder (a later datagram first), replay a stored datagram, fire a
 * timer early}.  ALL schedules with <= k deviations are executed from scratch (pinned
 * entropy/clock): k = 1 everywhere plus all end-of-run replay pairs (quick), k = 2 (thorough). */
#include "mxv.h"
#include "wire.h"

static int thorough;

typedef struct { int ver, kx; uint16_t suite; int pmtu; const char *name; int eager; int tickets; int cmulti; } pcfg_t;
static const pcfg_t pcfgs[] = {
    { V_DTLS12, KX_PSK, TLS_PSK_WITH_AES_128_CBC_SHA, 0, "dtls12-psk-cbc" },
    { V_DTLS10, KX_PSK, TLS_PSK_WITH_AES_128_CBC_SHA, 0, "dtls10-psk-cbc" },
    { V_DTLS12, KX_RSA, TLS_RSA_WITH_AES_128_GCM_SHA256, 0, "dtls12-rsa-gcm" },
    { V_DTLS12, KX_ECDHE_RSA, TLS_ECDHE_RSA_WITH_AES_128_CBC_SHA, 0, "dtls12-ecdhe-rsa" },
    { V_DTLS12, KX_ECDHE_RSA, TLS_ECDHE_RSA_WITH_AES_128_CBC_SHA, 512, "dtls12-ecdhe-pmtu512" },
    { V_DTLS12, KX_RSA, TLS_RSA_WITH_AES_128_CBC_SHA, 400, "dtls12-rsa-pmtu400" },
    /* server-speaks-first applications: the server writes its datagram the moment ITS handshake completes (it has handed
       its final flight to the transport), whether or not the client has seen that flight */
    { V_DTLS12, KX_PSK, TLS_PSK_WITH_AES_128_CBC_SHA, 0, "dtls12-psk-cbc-server-speaks-first", 1 },
    { V_DTLS10, KX_RSA, TLS_RSA_WITH_AES_128_CBC_SHA, 0, "dtls10-rsa-server-speaks-first", 1 },
    /* PMTU 300: the client's last flight is two datagrams, [ClientKeyExchange, ChangeCipherSpec] and [Finished]: the server
       can be in state "waiting for Finished" of a FULL handshake when its timer fires or a duplicate arrives */
    { V_DTLS12, KX_RSA, TLS_RSA_WITH_AES_128_CBC_SHA, 300, "dtls12-rsa-pmtu300" },
    /* session tickets: the server's last flight is NewSessionTicket, ChangeCipherSpec, Finished */
    { V_DTLS12, KX_RSA, TLS_RSA_WITH_AES_128_GCM_SHA256, 0, "dtls12-rsa-gcm-tickets", 0, 1 },
    /* a client with DTLS 1.2 and 1.0 enabled against a DTLS-1.0-only server: the client's first flights carry record
       version fe fd, the negotiated one is fe ff - retransmitted or duplicated ClientHellos arrive with the "wrong" version */
    { V_DTLS10, KX_PSK, TLS_PSK_WITH_AES_128_CBC_SHA, 0, "dtls10-server-vs-dtls12+10-client", 0, 0, 1 },
};
#define NPCFG ((int) (sizeof(pcfgs) / sizeof(pcfgs[0])))

enum { D_NONE = 0, D_DROP, D_DUP, D_REORDER, D_REPLAY, D_TIMEOUT, D_NK };
static const char *dname[] = { "none", "drop", "dup", "reorder", "replay", "timeout" };
typedef struct { int step, kind, a; } devi_t;   /* a: reorder index / replay store index / timeout side */

#define MAXSTORE 96
typedef struct { unsigned char *p; int len, dir; } stored_t;

typedef struct {
    world_t w;
    stored_t store[MAXSTORE];
    int nstore;
    int stored_upto[2];      /* how many units of wire[d] (absolute count) have been stored */
    long pushed[2];
    int step, nsteps_run;
    int max_epoch[2][2];     /* [side][0=write epoch,1=expected epoch] */
    int was_complete[2];
    char viol[160];
    int app_sent[2], app_dropped;
    uint64_t app_hash[3]; int app_len[3]; int app_drop_mask;
    int nrounds;
} run_t;

/* copy every not-yet-stored unit on the wires into the store */
static void store_new(run_t *R)
{
    int d, i;
    for (d = 0; d < 2; d++)
    {
        wire_t *q = &R->w.wire[d];
        for (i = 0; i < q->n; i++)
        {
            rec_t *r = &q->r[(q->head + i) % W_MAXREC];
            if (r->p[r->len] == 0x5A)
            {
                continue;
            }
            r->p[r->len] = 0x5A;
            if (R->nstore < MAXSTORE)
            {
                R->store[R->nstore].p = malloc((size_t) r->len);
                memcpy(R->store[R->nstore].p, r->p, (size_t) r->len);
                R->store[R->nstore].len = r->len;
                R->store[R->nstore].dir = d;
                R->nstore++;
            }
        }
    }
}

static int epoch_of(const unsigned char e[2]) { return (e[0] << 8) | e[1]; }

static void check_invariants(run_t *R, const char *when)
{
    int s;
    for (s = 0; s < 2; s++)
    {
        ssl_t *ssl = R->w.s[s].ssl;
        int we, ee;
        if (!ssl)
        {
            continue;
        }
        we = epoch_of(ssl->epoch);
        ee = epoch_of(ssl->expectedEpoch);
        if (we < R->max_epoch[s][0] && !R->viol[0])
        {
            snprintf(R->viol, sizeof(R->viol), "write-epoch-decreased");
        }
        if (we > R->max_epoch[s][0]) R->max_epoch[s][0] = we;
        if (ee > R->max_epoch[s][1]) R->max_epoch[s][1] = ee;
        if (world_is_complete(&R->w, s))
        {
            R->was_complete[s] = 1;
        }
        else if (R->was_complete[s] && !R->viol[0])
        {
            snprintf(R->viol, sizeof(R->viol), "handshake-state-regressed-after-completion");
        }
        if ((R->w.s[s].err_rc < 0 || ssl->err != SSL_ALERT_NONE) && !R->viol[0])
        {
            snprintf(R->viol, sizeof(R->viol), "fatal-error-from-loss-dup-reorder-replay");
            world_tracef(&R->w, "MONITOR fatal on side %d (%s): rc %d alert %d\n", s, when, R->w.s[s].err_rc, ssl->err);
        }
    }
}

static int server_has_timer(run_t *R)
{
    return R->w.s[1].ssl && R->w.s[1].ssl->hsState != SSL_HS_CLIENT_HELLO;
}

/* apply deviation; returns 0 if it was not applicable in this state (schedule invalid) */
static int apply_dev(run_t *R, const devi_t *dv, int turn)
{
    int d, k;
    switch (dv->kind)
    {
    case D_DROP:
    case D_DUP:
        for (k = 0; k < 2; k++)
        {
            d = (turn + k) % 2;
            if (R->w.wire[d].n > 0)
            {
                if (dv->kind == D_DROP)
                {
                    rec_t r = world_wire_pop(&R->w, d);
                    /* remember dropped application datagrams */
                    if (r.len > 13 && r.p[0] == SSL_RECORD_TYPE_APPLICATION_DATA)
                    {
                        R->app_dropped++;
                    }
                    free(r.p);
                }
                else
                {
                    rec_t *h = &R->w.wire[d].r[R->w.wire[d].head];
                    unsigned char *cp = malloc((size_t) h->len);
                    int l = h->len;
                    memcpy(cp, h->p, (size_t) l);
                    world_deliver(&R->w, d);
                    world_feed(&R->w, 1 - d, cp, l);
                    free(cp);
                }
                return 1;
            }
        }
        return 0;
    case D_REORDER:
        for (k = 0; k < 2; k++)
        {
            d = (turn + k) % 2;
            if (R->w.wire[d].n > dv->a && dv->a > 0)
            {
                wire_t *q = &R->w.wire[d];
                rec_t tmp = q->r[(q->head + dv->a) % W_MAXREC];
                int i;
                for (i = dv->a; i > 0; i--)
                {
                    q->r[(q->head + i) % W_MAXREC] = q->r[(q->head + i - 1) % W_MAXREC];
                }
                q->r[q->head] = tmp;
                world_deliver(&R->w, d);
                return 1;
            }
        }
        return 0;
    case D_REPLAY:
        if (dv->a >= R->nstore)
        {
            return 0;
        }
        world_tracef(&R->w, "REPLAY store[%d] dir %d len %d\n", dv->a, R->store[dv->a].dir, R->store[dv->a].len);
        world_feed(&R->w, 1 - R->store[dv->a].dir, R->store[dv->a].p, R->store[dv->a].len);
        return 1;
    case D_TIMEOUT:
        if (dv->a == 1 && !server_has_timer(R))
        {
            return 0;
        }
        if (!R->w.s[dv->a].ssl || world_is_complete(&R->w, dv->a))
        {
            return 0; /* a retransmission timer only runs while the side waits for a handshake flight */
        }
        world_dtls_timeout(&R->w, dv->a);
        return 1;
    }
    return 0;
}

/* run one schedule; returns number of steps executed; *valid = 0 if a deviation was inapplicable */
static void run_schedule(int pi, const devi_t *devs, int ndev, run_t *R, int *valid)
{
    const pcfg_t *pc = &pcfgs[pi];
    wcfg_t c;
    int turn = 0, phase = 0, k, idle_rounds = 0, guard = 0, srv_spoke = 0;
    static const int alen[3] = { 20, 33, 17 };
    memset(R, 0, sizeof(*R));
    *valid = 1;
    memset(&c, 0, sizeof(c));
    c.ver = pc->ver; c.kx = pc->kx; c.suite = pc->suite; c.pmtu = pc->pmtu; c.tickets = pc->tickets; c.dtls_cmulti = pc->cmulti;
    if (world_init(&R->w, &c) < 0)
    {
        *valid = 0;
        return;
    }
    world_collect(&R->w, 0);
    while (guard++ < 400)
    {
        int applied = 0;
        store_new(R);
        for (k = 0; k < ndev; k++)
        {
            if (devs[k].step == R->step)
            {
                if (!apply_dev(R, &devs[k], turn))
                {
                    *valid = 0;
                    return;
                }
                applied = 1;
                break;
            }
        }
        if (applied)
        {
            R->step++;
            store_new(R);
            check_invariants(R, "after deviation");
            continue;
        }
        /* the applications start talking as soon as both handshakes are complete (they do not wait for
           the network to go quiet): A0, A1 client->server, A2 server->client, one per scheduler iteration */
        if (pc->eager && !srv_spoke && world_is_complete(&R->w, 1))
        {
            unsigned char msg[64];
            int i;
            srv_spoke = 1;
            for (i = 0; i < alen[2]; i++)
            {
                msg[i] = (unsigned char) ('A' + 2 * 7 + i);
            }
            R->app_len[2] = alen[2];
            R->app_hash[2] = fnv1a(msg, (size_t) alen[2], FNV0);
            if (!world_is_complete(&R->w, 0))
            {
                R->app_dropped++;   /* written before the peer could read it: DTLS does not retransmit application data */
            }
            world_app_send(&R->w, 1, msg, alen[2]);
            store_new(R);
        }
        if (phase == 0 && world_is_complete(&R->w, 0) && world_is_complete(&R->w, 1))
        {
            phase = 1;
        }
        if (phase == 3 && pc->eager)
        {
            phase = 4;   /* the server has spoken already */
        }
        if (phase >= 1 && phase <= 3)
        {
            unsigned char msg[64];
            int m = phase - 1, side = (m == 2) ? 1 : 0, i;
            for (i = 0; i < alen[m]; i++)
            {
                msg[i] = (unsigned char) ('A' + m * 7 + i);
            }
            R->app_len[m] = alen[m];
            R->app_hash[m] = fnv1a(msg, (size_t) alen[m], FNV0);
            world_app_send(&R->w, side, msg, alen[m]);
            phase++;
            store_new(R);
        }
        if (world_step(&R->w, &turn))
        {
            R->step++;
            idle_rounds = 0;
            check_invariants(R, "after delivery");
            continue;
        }
        /* quiescent */
        if (phase == 0)
        {
            if (idle_rounds++ >= 8)
            {
                break; /* horizon */
            }
            /* retransmission timers: the client has one while incomplete, the server once it has sent a flight */
            world_dtls_timeout(&R->w, 0);
            if (server_has_timer(R))
            {
                world_dtls_timeout(&R->w, 1);
            }
            R->nrounds++;
            check_invariants(R, "after timeout");
            continue;
        }
        break;
    }
    R->nsteps_run = R->step;
    /* end of run */
    store_new(R);
}

static void judge(int pi, run_t *R, const devi_t *devs, int ndev, mx_result_t *r)
{
    const pcfg_t *pc = &pcfgs[pi];
    const char *sym = R->viol[0] ? R->viol : NULL;
    int s, m, d, used[3] = { 0, 0, 0 }, cnt[3] = { 0, 0, 0 };
    int dropped_app = R->app_dropped;
    /* safety: every delivered datagram equals a submitted one, at most once */
    for (s = 0; s < 2 && !sym; s++)
    {
        side_t *sd = &R->w.s[s];
        for (d = 0; d < sd->n_deliveries && d < 64; d++)
        {
            for (m = 0; m < 3; m++)
            {
                int to = (m == 2) ? 0 : 1;
                if (to == s && sd->dlog[d].len == (uint32_t) R->app_len[m] && sd->dlog[d].hash == R->app_hash[m])
                {
                    cnt[m]++;
                    break;
                }
            }
            if (m == 3)
            {
                sym = "delivered-datagram-never-sent";
                break;
            }
        }
    }
    for (m = 0; m < 3 && !sym; m++)
    {
        if (cnt[m] > 1)
        {
            sym = "application-record-delivered-twice";
        }
    }
    /* liveness within the horizon */
    if (!sym && !(world_is_complete(&R->w, 0) && world_is_complete(&R->w, 1)))
    {
        sym = "handshake-did-not-complete-within-horizon";
    }
    if (!sym && (cnt[0] + cnt[1] + cnt[2]) < 3 - dropped_app)
    {
        /* an application datagram that the schedule itself dropped is not retransmitted by DTLS */
        int lost_by_reorder = 0;
        (void) lost_by_reorder;
        sym = "application-data-not-delivered-after-handshake";
    }
    (void) used;
    r->nontrivial = ndev > 0;
    r->transitions = R->w.actions;
    r->trace_hash = world_trace_hash(&R->w);
    snprintf(r->outcome, sizeof(r->outcome), "%s:%s%s%s:rounds%d:%s", pc->name, ndev > 0 ? dname[devs[0].kind] : "none", ndev > 1 ? "+" : "",
        ndev > 1 ? dname[devs[1].kind] : "", R->nrounds > 3 ? 3 : R->nrounds, sym ? sym : "ok");
    if (sym)
    {
        r->violation = 1;
        snprintf(r->key, sizeof(r->key), "%s|%s%s%s|%s", pc->name, ndev > 0 ? dname[devs[0].kind] : "none", ndev > 1 ? "+" : "",
            ndev > 1 ? dname[devs[1].kind] : "", sym);
        snprintf(r->what, sizeof(r->what), "%s: schedule [%s@%d(%d)%s%s] => %s (deliveries c=%d s=%d, steps %d, timeout rounds %d)", pc->name,
            ndev > 0 ? dname[devs[0].kind] : "none", ndev > 0 ? devs[0].step : 0, ndev > 0 ? devs[0].a : 0, ndev > 1 ? " then " : "",
            ndev > 1 ? dname[devs[1].kind] : "", sym, R->w.s[0].n_deliveries, R->w.s[1].n_deliveries, R->nsteps_run, R->nrounds);
    }
}

static void free_run(run_t *R)
{
    int i;
    for (i = 0; i < R->nstore; i++)
    {
        free(R->store[i].p);
    }
    world_free(&R->w);
}

/* ------------------------------------------------------------ enumeration */
typedef struct { int pi, ndev; devi_t d[2]; } case_t;
static case_t *cases;
static long ncases, capcases;
static int base_steps[NPCFG], base_store[NPCFG];

static void add_case(int pi, int ndev, devi_t a, devi_t b)
{
    if (ncases >= capcases)
    {
        capcases = capcases ? capcases * 2 : 65536;
        cases = realloc(cases, (size_t) capcases * sizeof(case_t));
    }
    cases[ncases].pi = pi;
    cases[ncases].ndev = ndev;
    cases[ncases].d[0] = a;
    cases[ncases].d[1] = b;
    ncases++;
}

static int single_devs(int pi, devi_t *out, int max)
{
    /* deviation menu per step; step range covers the undisturbed run plus slack for extra steps */
    int n = 0, step, a, S = base_steps[pi] + 3, NS = base_store[pi] + 2;
    for (step = 0; step < S && n + 40 < max; step++)
    {
        out[n++] = (devi_t) { step, D_DROP, 0 };
        out[n++] = (devi_t) { step, D_DUP, 0 };
        out[n++] = (devi_t) { step, D_REORDER, 1 };
        out[n++] = (devi_t) { step, D_REORDER, 2 };
        out[n++] = (devi_t) { step, D_TIMEOUT, 0 };
        out[n++] = (devi_t) { step, D_TIMEOUT, 1 };
        for (a = 0; a < NS && a < MAXSTORE; a++)
        {
            if (n < max)
            {
                out[n++] = (devi_t) { step, D_REPLAY, a };
            }
        }
    }
    return n;
}

/* ------------------------------------------------ application phase: anti-replay window scripts (ndev == -1)
 * After an undisturbed handshake one side sends 48 one-record datagrams; script (dir, gap, extra): deliver #0..#2, skip
 * gap datagrams (a burst loss), deliver #(3+gap) and replay it at once, replay #2 and #extra, then deliver the skipped
 * ones late (reordering) and finally replay every datagram once more.  Each datagram may reach the application at most once. */
#define NWIN 48
static void run_window(int pi, int dir, int gap, int extra, mx_result_t *r)
{
    const pcfg_t *pc = &pcfgs[pi];
    static world_t w;
    wcfg_t c;
    static unsigned char *wrec[NWIN];
    static int wlen[NWIN];
    uint64_t whash[NWIN];
    int cnt[NWIN], k, i, d, recv = 1 - dir, jump = 3 + gap;
    const char *sym = NULL;
    side_t *rs;
    memset(&c, 0, sizeof(c));
    c.ver = pc->ver; c.kx = pc->kx; c.suite = pc->suite; c.pmtu = pc->pmtu; c.tickets = pc->tickets; c.dtls_cmulti = pc->cmulti;
    r->nontrivial = 1;
    if (world_init(&w, &c) < 0 || world_handshake(&w) != 0)
    {
        r->violation = 2;
        snprintf(r->key, sizeof(r->key), "window-setup-failed|%s", pc->name);
        snprintf(r->what, sizeof(r->what), "undisturbed handshake for the window scenario failed");
        return;
    }
    world_pump(&w, 50);
    for (k = 0; k < NWIN; k++)
    {
        unsigned char msg[24];
        rec_t u;
        memset(msg, 0x40 + k, sizeof(msg));
        msg[0] = (unsigned char) k; msg[1] = (unsigned char) pi; msg[2] = (unsigned char) dir;
        whash[k] = fnv1a(msg, 24, FNV0);
        if (world_app_send(&w, dir, msg, 24) <= 0)
        {
            r->violation = 2;
            snprintf(r->key, sizeof(r->key), "window-setup-failed|%s", pc->name);
            snprintf(r->what, sizeof(r->what), "application datagram %d could not be sent", k);
            return;
        }
        u = world_wire_pop(&w, dir);
        wrec[k] = u.p; wlen[k] = u.len;
    }
    rs = &w.s[recv];
#define FEED(x) do { if ((x) >= 0 && (x) < NWIN && wrec[x]) { world_feed(&w, recv, wrec[x], wlen[x]); r->transitions++; } } while (0)
    for (i = 0; i < 3; i++) FEED(i);
    if (jump < NWIN) { FEED(jump); FEED(jump); }
    FEED(2);
    FEED(extra);
    for (i = 3; i < NWIN; i++) if (i != jump) FEED(i);
    for (i = 0; i < NWIN; i++) FEED(i);
#undef FEED
    memset(cnt, 0, sizeof(cnt));
    for (d = 0; d < rs->n_deliveries && d < 64 && !sym; d++)
    {
        for (i = 0; i < NWIN; i++)
        {
            if (rs->dlog[d].hash == whash[i] && rs->dlog[d].len == 24) { cnt[i]++; break; }
        }
        if (i == NWIN) sym = "delivered-datagram-never-sent";
    }
    if (rs->n_deliveries > 64 && !sym) sym = "application-datagram-delivered-twice";
    for (i = 0; i < NWIN && !sym; i++) if (cnt[i] > 1) sym = "application-datagram-delivered-twice";
    snprintf(r->outcome, sizeof(r->outcome), "%s:window:gap%d:%s", pc->name, gap, sym ? sym : (rs->n_deliveries == NWIN ? "all-delivered-once" : "some-discarded"));
    r->trace_hash = world_trace_hash(&w);
    if (sym)
    {
        r->violation = 1;
        snprintf(r->key, sizeof(r->key), "%s|window-jump+replay|%s|%s", pc->name, dir ? "server-sends" : "client-sends", sym);
        snprintf(r->what, sizeof(r->what), "%s, %s sends 48 datagrams: deliver #0-2, lose %d, deliver #%d and replay it, replay #2 and #%d, late delivery of the rest, replay of all => %s (%d deliveries)",
            pc->name, dir ? "server" : "client", gap, jump, extra, sym, rs->n_deliveries);
    }
    for (k = 0; k < NWIN; k++) { free(wrec[k]); wrec[k] = NULL; }
    world_free(&w);
}

/* An old-epoch datagram of the peer's handshake is replayed N times to a completed side that has not yet received
 * application data (it answers each one by re-sending its last flight).  Afterwards that side's application datagrams must
 * still reach the peer, and no two records on the wire may carry the same (epoch, sequence number). */
static void run_epoch_replays(int pi, int victim, int n, mx_result_t *r)
{
    const pcfg_t *pc = &pcfgs[pi];
    static world_t w;
    wcfg_t c;
    unsigned char *old = NULL;
    int oldlen = 0, turn = 0, guard = 0, i, k, peer = 1 - victim;
    uint64_t seen[8];
    int nseen = 0;
    const char *sym = NULL;
    size_t before;
    memset(&c, 0, sizeof(c));
    c.ver = pc->ver; c.kx = pc->kx; c.suite = pc->suite; c.pmtu = pc->pmtu; c.tickets = pc->tickets; c.dtls_cmulti = pc->cmulti;
    r->nontrivial = 1;
    if (world_init(&w, &c) < 0)
    {
        goto internal;
    }
    world_collect(&w, 0);
    while (guard++ < 60 && !(world_is_complete(&w, 0) && world_is_complete(&w, 1)))
    {
        wire_t *q = &w.wire[peer];
        if (q->n > 0)
        {
            rec_t *x = &q->r[q->head];
            if (x->len > 13 && x->p[3] == 0 && x->p[4] == 0 && x->p[0] == 22)
            {
                free(old);
                old = malloc((size_t) x->len);
                memcpy(old, x->p, (size_t) x->len);
                oldlen = x->len;
            }
        }
        if (!world_step(&w, &turn))
        {
            break;
        }
    }
    world_pump(&w, 50);
    if (!(world_is_complete(&w, 0) && world_is_complete(&w, 1)) || !old)
    {
        goto internal;
    }
    world_wire_clear(&w, 0); world_wire_clear(&w, 1);
    for (i = 0; i < n; i++)
    {
        world_feed(&w, victim, old, oldlen);
        world_wire_clear(&w, victim);      /* whatever it re-sends is lost */
        if (w.s[victim].err_rc < 0)
        {
            sym = "fatal-error-from-replayed-handshake-datagram";
            break;
        }
    }
    r->transitions = (uint32_t) n;
    before = w.s[peer].delivered.len;
    for (k = 0; k < 3 && !sym; k++)
    {
        unsigned char msg[16];
        wire_t *q = &w.wire[victim];
        memset(msg, 0x61 + k, sizeof(msg));
        if (world_app_send(&w, victim, msg, 16) <= 0)
        {
            sym = "application-data-can-no-longer-be-sent-after-replays";
            break;
        }
        for (i = 0; i < q->n; i++)
        {
            rec_t *x = &q->r[(q->head + i) % W_MAXREC];
            uint64_t es = 0;
            int j;
            if (x->len < 13 || x->p[0] != 23) continue;
            for (j = 3; j < 11; j++) es = (es << 8) | x->p[j];
            for (j = 0; j < nseen; j++)
            {
                if (seen[j] == es) sym = "two-records-with-the-same-epoch-and-sequence-number";
            }
            if (nseen < 8) seen[nseen++] = es;
        }
        world_pump(&w, 20);
    }
    if (!sym && w.s[peer].delivered.len != before + 48)
    {
        sym = "application-data-no-longer-delivered-after-replays";
    }
    snprintf(r->outcome, sizeof(r->outcome), "%s:epoch-replays:%s:%s", pc->name, victim ? "server" : "client", sym ? sym : "ok");
    r->trace_hash = world_trace_hash(&w);
    if (sym)
    {
        r->violation = 1;
        snprintf(r->key, sizeof(r->key), "%s|old-epoch-replays|victim=%s|%s", pc->name, victim ? "server" : "client", sym);
        snprintf(r->what, sizeof(r->what), "%s: the peer's last epoch-0 handshake datagram replayed %d times to the completed %s (no application data received yet), then 3 application datagrams => %s",
            pc->name, n, victim ? "server" : "client", sym);
    }
    free(old);
    world_free(&w);
    return;
internal:
    r->violation = 2;
    snprintf(r->key, sizeof(r->key), "epoch-setup-failed|%s", pc->name);
    snprintf(r->what, sizeof(r->what), "handshake for the epoch-replay script failed");
}

static void run_case(void *ctx, mx_result_t *r)
{
    case_t *c = ctx;
    static run_t R;
    int valid;
    if (c->ndev == -2)
    {
        run_epoch_replays(c->pi, c->d[0].step, c->d[0].kind, r);
        return;
    }
    if (c->ndev == -1)
    {
        run_window(c->pi, c->d[0].step, c->d[0].kind, c->d[0].a, r);
        return;
    }
    run_schedule(c->pi, c->d, c->ndev, &R, &valid);
    if (!valid)
    {
        snprintf(r->outcome, sizeof(r->outcome), "%s:inapplicable", pcfgs[c->pi].name);
        r->nontrivial = 0;
        r->transitions = 1;
        return;
    }
    judge(c->pi, &R, c->d, c->ndev, r);
}

static void run_group(long gi, void *unused)
{
    long k, lo = gi * 128, hi = lo + 128;
    (void) unused;
    if (hi > ncases)
    {
        hi = ncases;
    }
    for (k = lo; k < hi; k++)
    {
        char desc[220];
        case_t *c = &cases[k];
        if (mx_deadline_hit())
        {
            return;
        }
        if (c->ndev == -2)
        {
            snprintf(desc, sizeof(desc), "p=%d;n=-2;d0=%d.%d.0;d1=0.0.0 (%s: %d replays of an old-epoch handshake datagram to the completed %s)", c->pi, c->d[0].step, c->d[0].kind,
                pcfgs[c->pi].name, c->d[0].kind, c->d[0].step ? "server" : "client");
            mx_fork_case(desc, run_case, c);
            continue;
        }
        if (c->ndev == -1)
        {
            snprintf(desc, sizeof(desc), "p=%d;n=-1;d0=%d.%d.%d;d1=0.0.0 (%s: window script, %s sends, gap %d, extra replay #%d)", c->pi, c->d[0].step, c->d[0].kind, c->d[0].a,
                pcfgs[c->pi].name, c->d[0].step ? "server" : "client", c->d[0].kind, c->d[0].a);
            mx_fork_case(desc, run_case, c);
            continue;
        }
        snprintf(desc, sizeof(desc), "p=%d;n=%d;d0=%d.%d.%d;d1=%d.%d.%d (%s: %s@step%d/%d%s%s)", c->pi, c->ndev, c->d[0].step, c->d[0].kind, c->d[0].a,
            c->d[1].step, c->d[1].kind, c->d[1].a, pcfgs[c->pi].name, c->ndev ? dname[c->d[0].kind] : "none", c->d[0].step, c->d[0].a,
            c->ndev > 1 ? " then " : "", c->ndev > 1 ? dname[c->d[1].kind] : "");
        mx_fork_case(desc, run_case, c);
    }
}

int main(int argc, char **argv)
{
    mx_cfg_t cfg;
    const char *replay;
    int pi;
    static devi_t menu[8192];

    memset(&cfg, 0, sizeof(cfg));
    cfg.property = "C16";
    cfg.sanitizer_is_oracle = 1;
    cfg.level = "model_checking";
    cfg.engine = "deviation-bounded schedule enumeration: each schedule re-executed from scratch on real DTLS sessions (forked child), explicit timer action";
    cfg.rule = "case = (configuration, schedule with <= k deviations from in-order lossless delivery); deviation menu at every delivery step: drop, duplicate, deliver 2nd/3rd in-flight datagram first, "
               "fire client/server retransmission timer, replay any datagram stored so far; each run continues with default delivery + timeout rounds to a horizon of 8 idle rounds, then 3 application datagrams; "
               "application phase: 48-datagram anti-replay window scripts in both directions (burst loss of g in {0,1,2,15,29..34,40,44} datagrams, replay of the first datagram after the gap, of an older one and of a third, late delivery of the lost ones, replay of everything); "
               "non-trivial = schedule with >= 1 applicable deviation";
    cfg.assumptions[0] = "entropy and clock pinned; a retransmission timer exists only for a side that has sent a flight (an idle server is never polled)";
    cfg.assumptions[1] = "liveness is judged within the horizon only; application datagrams dropped by the schedule itself are not expected to arrive";
    replay = mx_parse_args(argc, argv, &cfg);
    thorough = !strcmp(cfg.tier, "thorough");
    cfg.bound = thorough ? "all schedules with <= 2 deviations (PSK configs), <= 1 + end-replay pairs (certificate / small-PMTU configs)" : "all schedules with <= 1 deviation, plus all pairs of replays at the end of the run";

    if (replay)
    {
        case_t c;
        mx_result_t r;
        static run_t R;
        int valid;
        memset(&c, 0, sizeof(c));
        if (sscanf(replay, "p=%d;n=%d;d0=%d.%d.%d;d1=%d.%d.%d", &c.pi, &c.ndev, &c.d[0].step, &c.d[0].kind, &c.d[0].a, &c.d[1].step, &c.d[1].kind, &c.d[1].a) != 8 || c.pi >= NPCFG)
        {
            fprintf(stderr, "bad descriptor\n");
            return 2;
        }
        memset(&r, 0, sizeof(r));
        snprintf(r.desc, sizeof(r.desc), "%s", replay);
        if (c.ndev == -2)
        {
            run_epoch_replays(c.pi, c.d[0].step, c.d[0].kind, &r);
            mx_replay_print(&r);
            return 0;
        }
        if (c.ndev == -1)
        {
            run_window(c.pi, c.d[0].step, c.d[0].kind, c.d[0].a, &r);
            mx_replay_print(&r);
            return 0;
        }
        run_schedule(c.pi, c.d, c.ndev, &R, &valid);
        if (valid)
        {
            judge(c.pi, &R, c.d, c.ndev, &r);
        }
        fprintf(stderr, "%s", (char *) R.w.trace.p);
        mx_replay_print(&r);
        return 0;
    }
    mx_init(&cfg);
    for (pi = 0; pi < NPCFG; pi++)
    {
        static run_t R;
        int valid, n, i, j;
        devi_t none = { 0, 0, 0 };
        run_schedule(pi, NULL, 0, &R, &valid);
        base_steps[pi] = R.nsteps_run;
        base_store[pi] = R.nstore;
        fprintf(stderr, "%s: undisturbed run %d steps, %d datagrams, complete %d/%d deliveries %d/%d\n", pcfgs[pi].name, R.nsteps_run, R.nstore,
            world_is_complete(&R.w, 0), world_is_complete(&R.w, 1), R.w.s[0].n_deliveries, R.w.s[1].n_deliveries);
        if (!(world_is_complete(&R.w, 0) && world_is_complete(&R.w, 1)) || R.w.s[0].n_deliveries != 1 || R.w.s[1].n_deliveries != 2)
        {
            printf("INTERNAL property=C16 key=undisturbed-run-failed|%s what=the undisturbed DTLS run of %s does not complete and deliver\n", pcfgs[pi].name, pcfgs[pi].name);
            return 2;
        }
        free_run(&R);
        add_case(pi, 0, none, none);
        n = single_devs(pi, menu, 8192);
        for (i = 0; i < n; i++)
        {
            add_case(pi, 1, menu[i], none);
        }
        /* all pairs of replays at the end of the run */
        for (i = 0; i < base_store[pi]; i++)
        {
            for (j = 0; j < base_store[pi]; j++)
            {
                devi_t a = { base_steps[pi], D_REPLAY, i }, b = { base_steps[pi] + 1, D_REPLAY, j };
                add_case(pi, 2, a, b);
            }
        }
        /* application phase: anti-replay window scripts, both directions */
        if (pcfgs[pi].pmtu == 0)
        {
            static const int gaps[] = { 0, 1, 2, 15, 29, 30, 31, 32, 33, 34, 40, 44 };
            int gi, ex, dir;
            for (dir = 0; dir < 2; dir++)
            {
                for (gi = 0; gi < (int) (sizeof(gaps) / sizeof(gaps[0])); gi++)
                {
                    for (ex = 0; ex < NWIN; ex += (thorough ? 1 : 6))
                    {
                        devi_t a = { dir, gaps[gi], ex };
                        add_case(pi, -1, a, none);
                    }
                }
            }
        }
        if (pcfgs[pi].pmtu == 0 && !pcfgs[pi].eager)
        {
            /* 1500 (thorough 70000) replays: past the 510 at which a byte-wise epoch counter wraps, past the 1401 at which a byte-wise "largest sequence number" saturates 48 bits, and past 65536 */
            int v;
            for (v = 0; v < 2; v++)
            {
                devi_t a = { v, thorough ? 70000 : 1500, 0 };
                add_case(pi, -2, a, none);
            }
        }
        if (thorough && pcfgs[pi].kx == KX_PSK)
        {
            for (i = 0; i < n; i++)
            {
                for (j = 0; j < n; j++)
                {
                    if (menu[j].step > menu[i].step)
                    {
                        add_case(pi, 2, menu[i], menu[j]);
                    }
                }
            }
        }
    }
    mx_parallel((ncases + 127) / 128, run_group, NULL);
    return mx_finish(NULL);
}
