/* drv_c04 - C04: a handshake completes only if the peer was authenticated or the application overrode.
 *
 * Live handshakes between real MatrixSSL endpoints where the authenticated side presents a credential from
 * the generated certificate universe of C03 (one defect class at the leaf or at the intermediate, wrong
 * private key for the presented certificate, no trust anchor loaded, wrong expected name), for every
 * protocol version x key-exchange class x verifying role x certificate-callback mode.  The full product
 * is enumerated.  Oracle: the verifier reports completion only if the reference path validator (C03)
 * accepts the chain, or the registered callback returned 0 for that failure, and never when the peer
 * does not hold the certified key; with no callback or a strict one every defect is fatal, identically
 * for every protocol version (differential across the version rows). */
#include "mxv.h"
#include "wire.h"
#include "c03_ref.h"
#include <openssl/x509.h>
#include <sys/mman.h>
#include "c10_creds.h"

static int thorough;

/* CB_FORGIVE_EXPIRED: the application accepts exactly ONE specific failure, certificate_expired (what a device without a
 * reliable clock does, and what the repository's own sslTest callback does), and refuses every other alert */
/* CB_FORGIVE_EXPIRED_REVAL: the same callback, and the verifier sets VCERTS_FLAG_REVALIDATE_DATES (dates are checked again
 * at validation time - by a block that runs before the chain is validated) */
enum { CB_NONE = 0, CB_STRICT, CB_PERMISSIVE, CB_FORGIVE_EXPIRED, CB_FORGIVE_EXPIRED_REVAL, CB_N };
#define IS_FORGIVE(cb) ((cb) == CB_FORGIVE_EXPIRED || (cb) == CB_FORGIVE_EXPIRED_REVAL)
static const char *cbname[] = { "no-callback", "strict-callback", "permissive-callback", "callback-forgives-only-expiry", "callback-forgives-only-expiry+revalidate-dates" };
/* X_DEPTH1/2/3: the verifier limits the path length with validateCertsOpts.max_verify_depth; the good chain is leaf + one
 * intermediate under the root, i.e. a path of three certificates: limits 1 and 2 must refuse it, limit 3 must accept it */
/* X_NOANCHOR_ROOTSENT: the verifier has NO CA certificate loaded at all and the peer's chain ends with its (self-signed) root */
enum { X_CHAIN = 0, X_WRONGKEY, X_NOANCHOR, X_WRONGNAME, X_DEPTH1, X_DEPTH2, X_DEPTH3, X_NOANCHOR_ROOTSENT, X_EVILCA, X_N };
/* X_EVILCA: the verifier trusts R; the peer presents [leaf <- "Evil CA"], a self-made, self-signed CA certificate without
 * keyUsage whose notBefore lies in 1995 (the validator's "issued before keyUsage was required" test fails for it with an
 * error return instead of a verdict) - and holds the leaf's private key */
#define IS_NOANCHOR(x) ((x) == X_NOANCHOR || (x) == X_NOANCHOR_ROOTSENT)
static int g_send_root;
static const char *xname[] = { "chain", "wrong-private-key", "no-trust-anchor", "wrong-expected-name", "max-verify-depth-1", "max-verify-depth-2", "max-verify-depth-3", "no-ca-loaded-and-peer-sends-its-root", "self-made-ca-dated-1995-without-keyusage" };

typedef struct { int ver, kx, slice; uint16_t suite; const char *name; } m_cfg_t;
static const m_cfg_t mcfgs[] = {
    { V_TLS12, KX_RSA, SL_RSA, 0, "tls12-rsa" },
    { V_TLS12, KX_ECDHE_RSA, SL_RSA, 0, "tls12-ecdhe-rsa" },
    { V_TLS13, KX_13_RSA, SL_RSA, 0, "tls13-rsa" },
    { V_TLS11, KX_RSA, SL_RSA, 0, "tls11-rsa" },
    { V_DTLS12, KX_RSA, SL_RSA, 0, "dtls12-rsa" },
    { V_TLS12, KX_ECDHE_ECDSA, SL_EC, 0, "tls12-ecdhe-ecdsa" },
    { V_TLS13, KX_13_ECDSA, SL_EC, 0, "tls13-ecdsa" },
    { V_DTLS10, KX_RSA, SL_RSA, 0, "dtls10-rsa" },
    { V_TLS11, KX_ECDHE_RSA, SL_RSA, 0, "tls11-ecdhe-rsa" },
};
#define NMCFG ((int) (sizeof(mcfgs) / sizeof(mcfgs[0])))

typedef struct { int mi, vrole /* 0: client verifies server, 1: server verifies client */, cb, x, kleaf, kint; } c_case_t;

static int cb_mode;
static int cb_calls, cb_last_alert;
static int32 cert_cb(ssl_t *ssl, psX509Cert_t *cert, int32 alert)
{
    (void) ssl; (void) cert;
    cb_calls++;
    cb_last_alert = alert;
    if (IS_FORGIVE(cb_mode))
    {
        return alert == SSL_ALERT_CERTIFICATE_EXPIRED ? 0 : alert;
    }
    return cb_mode == CB_PERMISSIVE ? 0 : alert;
}

static int32 other_cb(ssl_t *ssl, psX509Cert_t *cert, int32 alert)
{
    (void) ssl; (void) cert;
    return alert; /* the non-verifying side validates its (good) peer strictly */
}

static int key_der(EVP_PKEY *k, unsigned char **out)
{
    *out = NULL;
    return i2d_PrivateKey(k, out);
}

/* The peer under test is a malicious endpoint: it runs the real library with an honest credential for the private key
 * it actually holds, and the certificate bytes it SENDS are replaced by the chain under test (the sender never re-checks
 * its own unparsedBin).  This bypasses the load-time sanity checks of matrixSslLoad*KeysMem, which would otherwise keep
 * most invalid kinds (and a certificate that does not match the private key) from ever reaching the verifier. */
static int att_leaf[SL_N] = { -1, -1, -1, -1, -1 };
static int att_leaf_id(int slice)
{
    cspec_t c;
    unsigned char *der;
    int derlen;
    X509 *x;
    if (att_leaf[slice] >= 0)
    {
        return att_leaf[slice];
    }
    memset(&c, 0, sizeof(c));
    c.subject_cn = level_cn(LV_LEAF); c.issuer_cn = level_cn(1);
    c.subject_key = g_key[slice][KS_ATT]; c.issuer_key = g_key[slice][KS_ROOT + 1];
    c.pathlen = -1; c.kind = K_GOOD;
    x = build_cert(&c, &der, &derlen);
    att_leaf[slice] = add_u(slice, LV_LEAF, 1, K_GOOD, x, der, derlen);
    return att_leaf[slice];
}

static void swap_bin(psX509Cert_t *c, int id);
static int load_identity(sslKeys_t *keys, int slice, int kleaf, int kint, int wrongkey);
static int load_identity_evil(sslKeys_t *keys, int slice)
{
    static int eleaf[8], eca[8], made[8];
    int rc;
    if (!made[slice])
    {
        cspec_t c;
        X509 *x;
        unsigned char *der;
        int derlen;
        memset(&c, 0, sizeof(c));
        c.subject_cn = "Evil CA"; c.issuer_cn = "Evil CA";
        c.subject_key = g_key[slice][KS_ATT]; c.issuer_key = g_key[slice][KS_ATT];
        c.is_ca = 1; c.pathlen = -1; c.kind = K_SELFSIGNED; c.old_no_ku = 1;
        x = build_cert(&c, &der, &derlen);
        eca[slice] = add_u(slice, 1, 0, K_SELFSIGNED, x, der, derlen);
        memset(&c, 0, sizeof(c));
        c.subject_cn = level_cn(LV_LEAF); c.issuer_cn = "Evil CA";
        c.subject_key = g_key[slice][KS_LEAF]; c.issuer_key = g_key[slice][KS_ATT];
        c.pathlen = -1; c.kind = K_GOOD;
        x = build_cert(&c, &der, &derlen);
        eleaf[slice] = add_u(slice, LV_LEAF, 1, K_GOOD, x, der, derlen);
        made[slice] = 1;
    }
    /* the key loader validates the chain it is given: load the honest chain, then swap the bytes that are SENT */
    rc = load_identity(keys, slice, K_GOOD, K_GOOD, 0);
    if (rc >= 0)
    {
        psX509Cert_t *c = keys->identity ? keys->identity->cert : NULL;
        if (!c || !c->next || !c->unparsedBin || !c->next->unparsedBin)
        {
            return -102;
        }
        swap_bin(c, eleaf[slice]);
        swap_bin(c->next, eca[slice]);
    }
    return rc;
}

static void swap_bin(psX509Cert_t *c, int id)
{
    unsigned char *n = malloc((size_t) U[id].derlen);
    memcpy(n, U[id].der, (size_t) U[id].derlen);
    psFree(c->unparsedBin, NULL);
    c->unparsedBin = n;
    c->binLen = (psSize_t) U[id].derlen;
}

/* identity = leaf(kind kleaf under L1) + intermediate L1(kind kint); anchors = {R} */
static int load_identity(sslKeys_t *keys, int slice, int kleaf, int kint, int wrongkey)
{
    int leaf = u_leaf[slice][1][kleaf], inter = u_ca[slice][1][kint];
    int hleaf = wrongkey ? att_leaf_id(slice) : u_leaf[slice][1][K_GOOD], hinter = u_ca[slice][1][K_GOOD];
    unsigned char *chain, *kd = NULL;
    int cl, kl, rc;
    EVP_PKEY *k = g_key[slice][wrongkey ? KS_ATT : KS_LEAF];
    if (leaf < 0 || inter < 0)
    {
        return -100;
    }
    cl = U[hleaf].derlen + U[hinter].derlen + (g_send_root ? U[u_root[slice][R_MAIN]].derlen : 0);
    chain = h_malloc((size_t) cl);
    memcpy(chain, U[hleaf].der, (size_t) U[hleaf].derlen);
    memcpy(chain + U[hleaf].derlen, U[hinter].der, (size_t) U[hinter].derlen);
    if (g_send_root)
    {
        memcpy(chain + U[hleaf].derlen + U[hinter].derlen, U[u_root[slice][R_MAIN]].der, (size_t) U[u_root[slice][R_MAIN]].derlen);
    }
    kl = key_der(k, &kd);
    if (kl <= 0)
    {
        free(chain);
        return -101;
    }
    if (slice == SL_EC)
    {
        rc = matrixSslLoadEcKeysMem(keys, chain, cl, kd, kl, NULL, 0);
    }
    else
    {
        rc = matrixSslLoadRsaKeysMem(keys, chain, cl, kd, kl, NULL, 0);
    }
    OPENSSL_free(kd);
    free(chain);
    if (rc >= 0 && (leaf != hleaf || inter != hinter))
    {
        psX509Cert_t *c = keys->identity ? keys->identity->cert : NULL;
        if (!c || !c->next || !c->unparsedBin || !c->next->unparsedBin)
        {
            return -102;
        }
        swap_bin(c, leaf);
        swap_bin(c->next, inter);
    }
    return rc;
}

static int load_anchor(sslKeys_t *keys, int slice)
{
    int r = u_root[slice][R_MAIN];
    if (slice == SL_EC)
    {
        return matrixSslLoadEcKeysMem(keys, NULL, 0, NULL, 0, U[r].der, U[r].derlen);
    }
    return matrixSslLoadRsaKeysMem(keys, NULL, 0, NULL, 0, U[r].der, U[r].derlen);
}

typedef struct { int complete[2]; int alert_sent[2]; int cb_calls, cb_alert; int load_rc; } c_out_t;

static void run_handshake(const c_case_t *c, c_out_t *o)
{
    const m_cfg_t *M = &mcfgs[c->mi];
    static world_t w;
    sslSessOpts_t so, co;
    psCipher16_t suite;
    sslKeys_t *ck = NULL, *sk = NULL;
    int rc, authed = c->vrole == 0 ? 1 : 0;  /* side that presents the credential under test */
    const char *expected = NULL;
    memset(o, 0, sizeof(*o));
    memset(&w, 0, sizeof(w));
    w.cfg.ver = M->ver; w.cfg.kx = M->kx;
    w.s[1].is_server = 1;
    buf_init(&w.trace);
    buf_init(&w.s[0].delivered); buf_init(&w.s[1].delivered);
    buf_init(&w.s[0].submitted); buf_init(&w.s[1].submitted);
    env_reset(7);
    world_open();
    cb_mode = c->cb;
    cb_calls = 0; cb_last_alert = 0;
    matrixSslNewKeys(&ck, NULL);
    matrixSslNewKeys(&sk, NULL);
    w.s[0].keys = ck; w.s[1].keys = sk;
    /* the authenticated side gets the credential under test; the other side a good one (server always needs an identity) */
    if (authed == 1)
    {
        g_send_root = c->x == X_NOANCHOR_ROOTSENT;
        rc = c->x == X_EVILCA ? load_identity_evil(sk, M->slice) : load_identity(sk, M->slice, c->kleaf, c->kint, c->x == X_WRONGKEY);
        g_send_root = 0;
    }
    else
    {
        rc = load_identity(sk, M->slice, K_GOOD, K_GOOD, 0);
        if (rc >= 0)
        {
            g_send_root = c->x == X_NOANCHOR_ROOTSENT;
            rc = c->x == X_EVILCA ? load_identity_evil(ck, M->slice) : load_identity(ck, M->slice, c->kleaf, c->kint, c->x == X_WRONGKEY);
            g_send_root = 0;
        }
    }
    o->load_rc = rc;
    if (rc < 0)
    {
        goto done;
    }
    /* trust anchors: the verifier gets R unless the case removes it; the client always needs R to accept a good server */
    if (!(IS_NOANCHOR(c->x) && c->vrole == 0))
    {
        load_anchor(ck, M->slice);
    }
    if (c->vrole == 1 && !IS_NOANCHOR(c->x))
    {
        load_anchor(sk, M->slice);
    }
    memset(&so, 0, sizeof(so));
    memset(&co, 0, sizeof(co));
    so.versionFlag = ver_flag(M->ver);
    co.versionFlag = ver_flag(M->ver);
    if (c->cb == CB_FORGIVE_EXPIRED_REVAL)
    {
        (c->vrole == 0 ? &co : &so)->validateCertsOpts.flags |= VCERTS_FLAG_REVALIDATE_DATES;
    }
    if (c->x >= X_DEPTH1 && c->x <= X_DEPTH3)
    {
        (c->vrole == 0 ? &co : &so)->validateCertsOpts.max_verify_depth = 1 + c->x - X_DEPTH1;
    }
    if (c->x == X_WRONGNAME && c->vrole == 0)
    {
        expected = "wrong.example.org";
    }
    suite = M->kx == KX_RSA ? TLS_RSA_WITH_AES_128_CBC_SHA : M->kx == KX_ECDHE_RSA ? TLS_ECDHE_RSA_WITH_AES_128_CBC_SHA :
        M->kx == KX_ECDHE_ECDSA ? TLS_ECDHE_ECDSA_WITH_AES_128_CBC_SHA : TLS_AES_128_GCM_SHA256;
    if (ver_is_dtls(M->ver))
    {
        matrixDtlsSetPmtu(-1);
    }
    /* server: requests client authentication only when the server is the verifier */
    rc = matrixSslNewServerSession(&w.s[1].ssl, sk, c->vrole == 1 ? (c->cb == CB_NONE ? NULL : cert_cb) : NULL, &so);
    if (rc < 0)
    {
        o->load_rc = rc;
        goto done;
    }
    if (c->vrole == 1 && c->cb == CB_NONE)
    {
        /* client authentication without a callback: request it through the session flag */
        w.s[1].ssl->flags |= SSL_FLAGS_CLIENT_AUTH;
    }
    rc = matrixSslNewClientSession(&w.s[0].ssl, ck, NULL, &suite, 1, c->vrole == 0 ? (c->cb == CB_NONE ? NULL : cert_cb) : other_cb, expected, NULL, NULL, &co);
    if (rc < 0)
    {
        o->load_rc = rc;
        goto done;
    }
    world_pump(&w, 200);
    o->complete[0] = world_is_complete(&w, 0);
    o->complete[1] = world_is_complete(&w, 1);
    o->alert_sent[0] = w.s[0].ssl->err;
    o->alert_sent[1] = w.s[1].ssl->err;
    o->cb_calls = cb_calls;
    o->cb_alert = cb_last_alert;
done:
    world_free_sessions(&w);
    if (ck) matrixSslDeleteKeys(ck);
    if (sk) matrixSslDeleteKeys(sk);
    buf_free(&w.trace);
}

/* --------------------------------------------------------------- enumeration */
static c_case_t *cases;
static long ncases, capcases;
static void add_case(c_case_t c)
{
    if (ncases >= capcases)
    {
        capcases = capcases ? capcases * 2 : 8192;
        cases = realloc(cases, (size_t) capcases * sizeof(c_case_t));
    }
    cases[ncases++] = c;
}

/* shared table: verdict of every case, for the cross-version differential */
typedef struct { signed char verifier_complete; signed char expect_reject; signed char valid; } cell_t;
static cell_t *cells;

static void case_key(const c_case_t *c, char *out, size_t n)
{
    snprintf(out, n, "%s|%s|%s|%s|leaf=%s|int=%s", mcfgs[c->mi].name, c->vrole ? "server-verifies-client" : "client-verifies-server", cbname[c->cb],
        xname[c->x], kind_tab[c->kleaf].name, kind_tab[c->kint].name);
}

static void run_case(void *ctx, mx_result_t *r)
{
    c_case_t *c = ctx;
    const m_cfg_t *M = &mcfgs[c->mi];
    c_out_t o;
    int chain[2], anch[1], must_reject, pop_bad, verifier = c->vrole == 0 ? 0 : 1, vc, expiry_only = 0;
    ref_t lax;
    char kk[200];
    const char *sym = NULL;

    build_slice(M->slice);
    chain[0] = u_leaf[M->slice][1][c->kleaf];
    chain[1] = u_ca[M->slice][1][c->kint];
    anch[0] = u_root[M->slice][R_MAIN];
    if (chain[0] < 0 || chain[1] < 0)
    {
        r->nontrivial = 0;
        snprintf(r->outcome, sizeof(r->outcome), "n/a:kind-not-in-slice");
        return;
    }
    ref_lax(chain, 2, anch, IS_NOANCHOR(c->x) ? 0 : 1, &lax);
    pop_bad = c->x == X_WRONGKEY;
    must_reject = !lax.ok || c->x == X_WRONGNAME || IS_NOANCHOR(c->x) || c->x == X_EVILCA || c->x == X_DEPTH1 || c->x == X_DEPTH2;
    {
        /* is being outside the validity period the ONLY thing wrong with this credential?  (the same chain with the
           out-of-date certificates replaced by their in-date twins is valid, the name is right, an anchor is loaded) */
        int kl = (c->kleaf == K_EXPIRED || c->kleaf == K_NOTYET) ? K_GOOD : c->kleaf, ki = (c->kint == K_EXPIRED || c->kint == K_NOTYET) ? K_GOOD : c->kint;
        int ch2[2];
        ref_t l2;
        ch2[0] = u_leaf[M->slice][1][kl]; ch2[1] = u_ca[M->slice][1][ki];
        ref_lax(ch2, 2, anch, 1, &l2);
        expiry_only = c->x == X_CHAIN && (kl != c->kleaf || ki != c->kint) && l2.ok;
    }
    run_handshake(c, &o);
    r->nontrivial = 1;
    r->transitions = 1;
    case_key(c, kk, sizeof(kk));
    if (o.load_rc < 0)
    {
        snprintf(r->outcome, sizeof(r->outcome), "%s:%s:credential-refused-at-load", M->name, xname[c->x]);
        r->nontrivial = 0;
        return;
    }
    vc = o.complete[verifier];
    snprintf(r->outcome, sizeof(r->outcome), "%s:%s:%s:%s:ref-%s:cb%d", c->vrole ? "srv-verifies" : "cli-verifies", cbname[c->cb], xname[c->x], vc ? "COMPLETE" : "refused",
        lax.ok ? "ok" : "reject", o.cb_calls > 0);
    if (vc && pop_bad)
    {
        sym = "completed-without-proof-of-possession";
    }
    else if (!vc && c->x == X_DEPTH3 && lax.ok && c->kleaf == K_GOOD && c->kint == K_GOOD)
    {
        sym = "valid-chain-within-the-depth-limit-refused";
    }
    else if (vc && must_reject && IS_FORGIVE(c->cb))
    {
        if (!expiry_only)
        {
            sym = "completed-with-a-failure-the-callback-did-not-forgive";
        }
        else if (o.cb_calls == 0 || o.cb_alert != SSL_ALERT_CERTIFICATE_EXPIRED)
        {
            sym = "completed-with-invalid-credential-callback-never-asked";
        }
    }
    else if (vc && must_reject && c->cb != CB_PERMISSIVE)
    {
        sym = "completed-with-invalid-credential";
    }
    else if (vc && must_reject && c->cb == CB_PERMISSIVE && o.cb_calls == 0)
    {
        sym = "completed-with-invalid-credential-callback-never-asked";
    }
    else if (vc && must_reject && c->cb == CB_PERMISSIVE && o.cb_alert == 0)
    {
        sym = "callback-was-told-no-failure-for-invalid-credential";
    }
    if (sym)
    {
        r->violation = 1;
        snprintf(r->key, sizeof(r->key), "%s|%s|%s|%s|%s", sym, M->ver == V_TLS13 ? "tls13" : ver_is_dtls(M->ver) ? "dtls" : "tls<=1.2",
            c->vrole ? "server-verifies" : "client-verifies", cbname[c->cb],
            c->x == X_CHAIN ? (c->kleaf != K_GOOD ? kind_tab[c->kleaf].name : kind_tab[c->kint].name) : xname[c->x]);
        snprintf(r->what, sizeof(r->what), "%s: verifier completed (callback calls %d, last alert %d, reference: %s%s) => %s", kk, o.cb_calls, o.cb_alert,
            lax.ok ? "valid" : "invalid: ", lax.ok ? "" : lax.why, sym);
    }
    r->state_hash = fnv1a(kk, strlen(kk), FNV0);
}


/* --------------------------------------------------------------- part R: a ServerKeyExchange of ANOTHER handshake
 * "the peer proved possession of the private key over THIS handshake's key-exchange parameters": the server's signature
 * in ServerKeyExchange covers client_random || server_random || params.  An attacker without the key records the first
 * flight (ServerHello .. ServerHelloDone) of an honest handshake and replays it to a fresh client, whose client_random
 * differs.  The client must refuse the stale signature where it arrives; going on to send its ClientKeyExchange means
 * the signature did not bind this handshake.  Credentials with SHA-256 / SHA-384 / SHA-512 certificate chains select
 * the three digest paths of the signature (MatrixSSL signs with the hash of its certificate's signature). */
typedef struct { const char *name; int ver, kx, cred; uint16_t suite; } r_cfg_t;
static const r_cfg_t rcfgs[] = {
    { "tls12-ecdhe-rsa-sha256chain", V_TLS12, KX_ECDHE_RSA, CR_RSA, TLS_ECDHE_RSA_WITH_AES_128_CBC_SHA },
    { "tls12-ecdhe-ecdsa-p256-sha256chain", V_TLS12, KX_ECDHE_ECDSA, CR_EC256, TLS_ECDHE_ECDSA_WITH_AES_128_CBC_SHA },
    { "tls12-ecdhe-ecdsa-p384-sha384chain", V_TLS12, KX_ECDHE_ECDSA, CR_EC384S, TLS_ECDHE_ECDSA_WITH_AES_256_GCM_SHA384 },
    { "tls12-ecdhe-ecdsa-p521-sha512chain", V_TLS12, KX_ECDHE_ECDSA, CR_EC521S, TLS_ECDHE_ECDSA_WITH_AES_128_GCM_SHA256 },
    { "tls11-ecdhe-rsa", V_TLS11, KX_ECDHE_RSA, CR_RSA, TLS_ECDHE_RSA_WITH_AES_128_CBC_SHA },
    /* (DTLS is left out: the recorded flight carries the message sequence numbers of a handshake that went through the
       cookie exchange; a fresh client treats it as messages from the future and neither accepts nor refuses it) */
};
#define NRCFG ((int) (sizeof(rcfgs) / sizeof(rcfgs[0])))

static int r_world(world_t *w, const r_cfg_t *R, uint64_t seed, int with_server)
{
    const c10_cred_t *cr = &c10_creds[R->cred];
    sslSessOpts_t so, co;
    psCipher16_t suite = R->suite;
    matrixSslLoadKeysOpts_t lo;
    int rc;
    memset(w, 0, sizeof(*w));
    w->cfg.ver = R->ver; w->cfg.kx = R->kx;
    w->s[1].is_server = 1;
    buf_init(&w->trace);
    buf_init(&w->s[0].delivered); buf_init(&w->s[1].delivered);
    buf_init(&w->s[0].submitted); buf_init(&w->s[1].submitted);
    env_reset(seed);
    world_open();
    matrixSslNewKeys(&w->s[0].keys, NULL);
    matrixSslNewKeys(&w->s[1].keys, NULL);
    memset(&lo, 0, sizeof(lo));
    lo.key_type = cr->mtype;
    rc = matrixSslLoadKeysMem(w->s[0].keys, NULL, 0, NULL, 0, cr->ca, (int32) cr->calen, &lo);
    if (rc >= 0 && with_server)
    {
        rc = matrixSslLoadKeysMem(w->s[1].keys, cr->cert, (int32) cr->certlen, cr->key, (int32) cr->keylen, NULL, 0, &lo);
    }
    if (rc < 0)
    {
        return rc;
    }
    memset(&so, 0, sizeof(so));
    memset(&co, 0, sizeof(co));
    so.versionFlag = ver_flag(R->ver);
    co.versionFlag = ver_flag(R->ver);
    if (ver_is_dtls(R->ver))
    {
        matrixDtlsSetPmtu(-1);
    }
    if (with_server && (rc = matrixSslNewServerSession(&w->s[1].ssl, w->s[1].keys, NULL, &so)) < 0)
    {
        return rc;
    }
    return matrixSslNewClientSession(&w->s[0].ssl, w->s[0].keys, NULL, &suite, 1, other_cb, NULL, NULL, NULL, &co);
}

static void r_run_case(void *ctx, mx_result_t *r)
{
    const r_cfg_t *R = &rcfgs[*(int *) ctx];
    static world_t w1, w2;
    static unsigned char flight[16][4000];
    int flen[16], nf = 0, i, rc, dtls = ver_is_dtls(R->ver), sent_cke = 0, guard = 0, turn = 0;
    r->nontrivial = 1;
    r->transitions = 2;
    /* handshake 1: honest; record the server's first flight (for DTLS: the one after the cookie exchange) */
    if ((rc = r_world(&w1, R, 7, 1)) < 0)
    {
        r->violation = 2;
        snprintf(r->key, sizeof(r->key), "internal|stale-ske|setup|%s", R->name);
        snprintf(r->what, sizeof(r->what), "cannot set up %s (rc %d)", R->name, rc);
        return;
    }
    world_collect(&w1, 0);
    while (guard++ < 40 && world_step(&w1, &turn))
    {
        wire_t *q = &w1.wire[1];
        int k, has_shd = 0;
        for (k = 0; k < q->n; k++)
        {
            rec_t *x = &q->r[(q->head + k) % W_MAXREC];
            int hh = dtls ? 13 : 5, off = hh;
            /* the flight that ends with ServerHelloDone (type 14) */
            if (x->p[0] == 22)
            {
                while (off + 4 <= x->len)
                {
                    int ml = (x->p[off + 1] << 16) | (x->p[off + 2] << 8) | x->p[off + 3];
                    if (x->p[off] == 14) has_shd = 1;
                    off += (dtls ? 12 : 4) + ml;
                }
            }
        }
        if (has_shd)
        {
            for (k = 0; k < q->n && nf < 16; k++)
            {
                rec_t *x = &q->r[(q->head + k) % W_MAXREC];
                if (x->len <= 4000)
                {
                    memcpy(flight[nf], x->p, (size_t) x->len);
                    flen[nf++] = x->len;
                }
            }
            break;
        }
    }
    if (nf == 0)
    {
        r->violation = 2;
        snprintf(r->key, sizeof(r->key), "internal|stale-ske|no-flight|%s", R->name);
        snprintf(r->what, sizeof(r->what), "%s: the honest server flight was not observed", R->name);
        world_free(&w1);
        return;
    }
    /* handshake 2: a fresh client (other entropy: other client_random), no server: the attacker replays the recording */
    if ((rc = r_world(&w2, R, 1234567, 0)) < 0)
    {
        r->violation = 2;
        snprintf(r->key, sizeof(r->key), "internal|stale-ske|setup2|%s", R->name);
        world_free(&w1);
        return;
    }
    world_collect(&w2, 0);
    if (dtls)
    {
        /* the client's first ClientHello is answered by the recorded flight directly (no cookie demanded by the attacker) */
    }
    world_wire_clear(&w2, 0);
    for (i = 0; i < nf; i++)
    {
        if (w2.s[0].err_rc < 0 || w2.s[0].ssl->err != SSL_ALERT_NONE)
        {
            break;
        }
        world_feed(&w2, 0, flight[i], flen[i]);
    }
    {
        wire_t *q = &w2.wire[0];
        int k, hh = dtls ? 13 : 5;
        for (k = 0; k < q->n; k++)
        {
            rec_t *x = &q->r[(q->head + k) % W_MAXREC];
            if (x->p[0] == 22 && x->len > hh && x->p[hh] == 16 && !(dtls && (x->p[3] || x->p[4])))
            {
                sent_cke = 1;
            }
        }
    }
    snprintf(r->outcome, sizeof(r->outcome), "stale-ske:%s:%s:alert%d", R->name, sent_cke ? "ACCEPTED" : "refused", w2.s[0].ssl->err);
    r->trace_hash = world_trace_hash(&w2);
    r->state_hash = fnv1a(R->name, strlen(R->name), FNV0);
    if (sent_cke || (w2.s[0].err_rc >= 0 && w2.s[0].ssl->err == SSL_ALERT_NONE))
    {
        r->violation = 1;
        snprintf(r->key, sizeof(r->key), "server-key-exchange-of-another-handshake-accepted|%s", R->name);
        snprintf(r->what, sizeof(r->what), "%s: a fresh client accepted the recorded ServerHello..ServerHelloDone flight of ANOTHER handshake (its ServerKeyExchange signature was made for another client_random)%s",
            R->name, sent_cke ? " and answered with its ClientKeyExchange" : " without any error");
    }
    world_free_sessions(&w2);
    matrixSslDeleteKeys(w2.s[0].keys); matrixSslDeleteKeys(w2.s[1].keys);
    world_free_sessions(&w1);
    matrixSslDeleteKeys(w1.s[0].keys); matrixSslDeleteKeys(w1.s[1].keys);
}

static void run_group_r(int ri)
{
    char desc[200];
    static int idx;
    idx = ri;
    snprintf(desc, sizeof(desc), "R;c=%d (%s: recorded server flight replayed to a fresh client)", ri, rcfgs[ri].name);
    mx_fork_case(desc, r_run_case, &idx);
}

static long ngroups_cases;
static void run_group(long gi, void *unused)
{
    long k, lo = gi * 16, hi = lo + 16;
    (void) unused;
    if (gi >= ngroups_cases)
    {
        run_group_r((int) (gi - ngroups_cases));
        return;
    }
    if (hi > ncases) hi = ncases;
    for (k = lo; k < hi; k++)
    {
        char desc[240], kk[200];
        c_case_t *c = &cases[k];
        if (mx_deadline_hit())
        {
            return;
        }
        case_key(c, kk, sizeof(kk));
        snprintf(desc, sizeof(desc), "m=%d;v=%d;cb=%d;x=%d;kl=%d;ki=%d (%s)", c->mi, c->vrole, c->cb, c->x, c->kleaf, c->kint, kk);
        mx_fork_case(desc, run_case, c);
    }
}

int main(int argc, char **argv)
{
    mx_cfg_t cfg;
    const char *replay;
    int mi, v, cb, k;

    memset(&cfg, 0, sizeof(cfg));
    cfg.property = "C04";
    cfg.sanitizer_is_oracle = 1;
    cfg.level = "model_checking";
    cfg.engine = "exhaustive product of live handshakes between real endpoints; credentials from the generated C03 certificate universe; reference verdict from the C03 path validator";
    cfg.rule = "case = (version x key-exchange class, verifying role, callback mode in {none, strict, permissive, forgives only certificate_expired}, credential: each of the 31 certificate kinds at the leaf and at the intermediate position, "
               "or a good chain with the WRONG private key, or no trust anchor on the verifier, or a wrong expected name, or a path-length limit (max_verify_depth 1, 2: must refuse; 3: must accept); under the expiry-forgiving callback additionally every DOUBLE defect: an expired / not-yet-valid certificate combined with each other kind at the other position, with no anchor, with the wrong key, with the wrong name); every cell of the product is a live handshake; non-trivial = the credential could be loaded and the handshake ran";
    cfg.assumptions[0] = "must-reject = the reference validator (rules of C03) rejects the chain, or the expected name is wrong, or the verifier has no trust anchor; then completion of the verifier is a violation unless the permissive callback was asked with a non-zero alert";
    cfg.assumptions[2] = "under the callback that forgives only certificate_expired the verifier may complete only if being outside the validity period is the ONLY defect of the credential (the chain with the out-of-date certificates replaced by in-date twins is valid) and the callback was asked with exactly that alert";
    cfg.assumptions[1] = "a peer that does not hold the certified private key must never be accepted, whatever the callback says";
    replay = mx_parse_args(argc, argv, &cfg);
    thorough = !strcmp(cfg.tier, "thorough");
    cfg.bound = thorough ? "full product" : "full product over 6 version x key-exchange classes";
    g_dump = 0;

    if (replay && replay[0] == 'R')
    {
        mx_result_t r;
        int ri = 0;
        if (sscanf(replay, "R;c=%d", &ri) != 1 || ri < 0 || ri >= NRCFG)
        {
            return 2;
        }
        memset(&r, 0, sizeof(r));
        snprintf(r.desc, sizeof(r.desc), "%s", replay);
        r_run_case(&ri, &r);
        mx_replay_print(&r);
        return 0;
    }
    if (replay)
    {
        c_case_t c;
        mx_result_t r;
        if (sscanf(replay, "m=%d;v=%d;cb=%d;x=%d;kl=%d;ki=%d", &c.mi, &c.vrole, &c.cb, &c.x, &c.kleaf, &c.kint) != 6 || c.mi >= NMCFG)
        {
            return 2;
        }
        memset(&r, 0, sizeof(r));
        snprintf(r.desc, sizeof(r.desc), "%s", replay);
        run_case(&c, &r);
        mx_replay_print(&r);
        return 0;
    }
    mx_init(&cfg);
    /* build the universes once in the master so that the forked cases share them */
    build_slice(SL_RSA);
    build_slice(SL_EC);
    for (mi = 0; mi < (thorough ? NMCFG : 7); mi++)
    {
        for (v = 0; v < 2; v++)
        {
            for (cb = 0; cb < CB_N; cb++)
            {
                c_case_t c = { mi, v, cb, X_CHAIN, K_GOOD, K_GOOD };
                for (k = 0; k < K_N; k++)
                {
                    if (kind_in_slice(mcfgs[mi].slice, k) && (kind_tab[k].where & F_LEAF))
                    {
                        c.kleaf = k; c.kint = K_GOOD;
                        add_case(c);
                    }
                    if (k != K_GOOD && kind_in_slice(mcfgs[mi].slice, k) && (kind_tab[k].where & F_CA))
                    {
                        c.kleaf = K_GOOD; c.kint = k;
                        add_case(c);
                    }
                }
                if (IS_FORGIVE(cb))
                {
                    /* two things wrong at once: an out-of-date certificate AND another defect (the forgiven alert must
                       not stand for the other failure) */
                    int e, ek[2] = { K_EXPIRED, K_NOTYET };
                    for (e = 0; e < 2; e++)
                    {
                        for (k = 0; k < K_N; k++)
                        {
                            if (k == K_GOOD || !kind_in_slice(mcfgs[mi].slice, k)) continue;
                            if (kind_tab[k].where & F_CA)
                            {
                                c.x = X_CHAIN; c.kleaf = ek[e]; c.kint = k; add_case(c);
                            }
                            if ((kind_tab[k].where & F_LEAF) && (thorough || e == 0))
                            {
                                c.x = X_CHAIN; c.kleaf = k; c.kint = ek[e]; add_case(c);
                            }
                        }
                        c.kleaf = ek[e]; c.kint = K_GOOD;
                        c.x = X_NOANCHOR; add_case(c);
                        c.x = X_NOANCHOR_ROOTSENT; add_case(c);
                        c.x = X_WRONGKEY; add_case(c);
                        if (v == 0)
                        {
                            c.x = X_WRONGNAME; add_case(c);
                        }
                        c.kleaf = K_GOOD; c.kint = ek[e];
                        c.x = X_NOANCHOR; add_case(c);
                    }
                }
                c.kleaf = K_GOOD; c.kint = K_GOOD;
                c.x = X_EVILCA; add_case(c);
                c.x = X_DEPTH1; add_case(c);
                c.x = X_DEPTH2; add_case(c);
                c.x = X_DEPTH3; add_case(c);
                c.x = X_WRONGKEY; add_case(c);
                c.x = X_NOANCHOR; add_case(c);
                c.x = X_NOANCHOR_ROOTSENT; add_case(c);
                if (v == 0)
                {
                    c.x = X_WRONGNAME; add_case(c);
                }
            }
        }
    }
    ngroups_cases = (ncases + 15) / 16;
    mx_parallel(ngroups_cases + NRCFG, run_group, NULL);
    (void) cells;
    return mx_finish(NULL);
}
