/* c12_sym.h - block cipher / CBC / GCM / ChaCha20-Poly1305 primitives for drv_c12 (private header) */
#ifndef C12_SYM_H
#define C12_SYM_H
#include "c12_core.h"
#include "c12_dig.h"

static const int aes_kl[3] = { 16, 24, 32 };

/* key material variant v for a key of kl bytes: v < 8*kl single-bit keys, then all-zero, all-ones, then seeded patterns */
static void make_key(uch *out, int kl, int v)
{
    memset(out, 0, (size_t) kl);
    if (v < 8 * kl)
    {
        out[v / 8] = (uch) (0x80 >> (v % 8));
    }
    else if (v == 8 * kl)
    {
    }
    else if (v == 8 * kl + 1)
    {
        memset(out, 0xff, (size_t) kl);
    }
    else
    {
        memcpy(out, KEYM + 600 + ((v - 8 * kl) * 37) % 300, (size_t) kl);
    }
}
/* 16-byte block pattern: 0..127 single bit, 128 zero, 129 ones, then seeded */
static void make_block(uch *out, int bl, int v)
{
    memset(out, 0, (size_t) bl);
    if (v < 8 * bl)
    {
        out[v / 8] = (uch) (0x80 >> (v % 8));
    }
    else if (v == 8 * bl + 1)
    {
        memset(out, 0xff, (size_t) bl);
    }
    else if (v > 8 * bl + 1)
    {
        memcpy(out, MSG + 1000 + (v * 16) % 60000, (size_t) bl);
    }
}

/* g = key size index (or 3 = invalid key length test with k = length), y = 0 encrypt / 1 decrypt, a = key variant, b = block variant */
static int prim_aesblk(const pc_t *pc, char *human, char *what)
{
    uch keyb[32], blk[16], exp[16];
    xb_t key, in, out;
    psAesKey_t *ctx;
    int kl, r, rc;
    if (pc->g == 3)
    {
        snprintf(human, 160, "aes-block invalid keylen=%d", pc->k);
        key = xdup(KEYM, 32, 0);
        ctx = malloc(sizeof(*ctx));
        rc = psAesInitBlockKey(ctx, key.p, (uint8_t) pc->k, pc->y ? PS_AES_DECRYPT : PS_AES_ENCRYPT);
        free(ctx);
        xfree(key);
        if (rc >= 0)
        {
            snprintf(what, 320, "%s: psAesInitBlockKey accepted an invalid key length", human);
            return 1;
        }
        return 2;
    }
    kl = aes_kl[pc->g];
    snprintf(human, 160, "aes%d-block %s keyvar=%d blockvar=%d inoff=%d outoff=%d", kl * 8, pc->y ? "dec" : "enc", pc->a, pc->b, pc->i, pc->o);
    make_key(keyb, kl, pc->a);
    make_block(blk, 16, pc->b);
    ref_cipher(RC_AES128_ECB + pc->g, !pc->y, keyb, NULL, blk, 16, exp);
    key = xdup(keyb, (size_t) kl, 0);
    in = xdup(blk, 16, pc->i);
    out = pc->o < 0 ? in : xout(16, pc->o);
    ctx = malloc(sizeof(*ctx));
    memset(ctx, 0xEE, sizeof(*ctx));
    vhex("key", keyb, (size_t) kl);
    vhex("block", blk, 16);
    rc = psAesInitBlockKey(ctx, key.p, (uint8_t) kl, pc->y ? PS_AES_DECRYPT : PS_AES_ENCRYPT);
    if (rc < 0)
    {
        snprintf(what, 320, "%s: key setup failed rc=%d", human, rc);
        r = 1;
    }
    else
    {
        if (pc->y)
        {
            psAesDecryptBlock(ctx, in.p, out.p);
        }
        else
        {
            psAesEncryptBlock(ctx, in.p, out.p);
        }
        r = cmp_report("block", exp, out.p, 16, what, human);
    }
    free(ctx);
    xfree(key); xfree(in);
    if (pc->o >= 0)
    {
        xfree(out);
    }
    return r;
}

/* g = 0..2 AES key size, 3 = 3DES; n = number of blocks; y = 0 enc / 1 dec; k = key variant (0..2); o = -1 in place */
static int prim_cbc(const pc_t *pc, char *human, char *what)
{
    int bl = pc->g == 3 ? 8 : 16, kl = pc->g == 3 ? 24 : aes_kl[pc->g], nb = pc->n * bl, st[MAXSEG], ln[MAXSEG], ns, j, r, rc;
    const uch *keyb = KEYM + 40 + pc->k * 41, *ivb = KEYM + 200 + pc->k * 17, *msg = msg_for(pc);
    uch *exp = malloc((size_t) nb + 1);
    xb_t key = xdup(keyb, (size_t) kl, 0), iv = xdup(ivb, (size_t) bl, 0), in = xdup(msg, (size_t) nb, pc->i), out;
    snprintf(human, 160, "%s-cbc %s blocks=%d part=%d/%d/%d inoff=%d outoff=%d", pc->g == 3 ? "3des" : pc->g == 0 ? "aes128" : pc->g == 1 ? "aes192" : "aes256",
        pc->y ? "dec" : "enc", pc->n, pc->m, pc->a, pc->b, pc->i, pc->o);
    out = pc->o < 0 ? in : xout((size_t) nb, pc->o);
    {
        static int c_g = -1, c_y, c_k, c_n;
        static const uch *c_msg;
        static uch *c_exp;
        static size_t c_cap;
        if (c_g != pc->g || c_y != pc->y || c_k != pc->k || c_n != pc->n || c_msg != msg)
        {
            if (c_cap < (size_t) nb + 1)
            {
                c_cap = (size_t) nb + 1;
                c_exp = realloc(c_exp, c_cap);
            }
            ref_cipher(pc->g == 3 ? RC_DES3_CBC : RC_AES128_CBC + pc->g, !pc->y, keyb, ivb, msg, (size_t) nb, c_exp);
            c_g = pc->g; c_y = pc->y; c_k = pc->k; c_n = pc->n; c_msg = msg;
        }
        memcpy(exp, c_exp, (size_t) nb);
    }
    vhex("key", keyb, (size_t) kl);
    vhex("iv", ivb, (size_t) bl);
    vhex("input", msg, (size_t) nb);
    ns = segs(pc->n, pc->m, pc->a, pc->b, st, ln);
    if (pc->g == 3)
    {
        psDes3_t *ctx = malloc(sizeof(*ctx));
        memset(ctx, 0xEE, sizeof(*ctx));
        rc = psDes3Init(ctx, iv.p, key.p);
        for (j = 0; j < ns && rc >= 0; j++)
        {
            if (pc->y)
            {
                psDes3Decrypt(ctx, in.p + st[j] * bl, out.p + st[j] * bl, (uint32_t) (ln[j] * bl));
            }
            else
            {
                psDes3Encrypt(ctx, in.p + st[j] * bl, out.p + st[j] * bl, (uint32_t) (ln[j] * bl));
            }
        }
        free(ctx);
    }
    else
    {
        psAesCbc_t *ctx = malloc(sizeof(*ctx));
        memset(ctx, 0xEE, sizeof(*ctx));
        rc = psAesInitCBC(ctx, iv.p, key.p, (uint8_t) kl, pc->y ? PS_AES_DECRYPT : PS_AES_ENCRYPT);
        for (j = 0; j < ns && rc >= 0; j++)
        {
            if (pc->y)
            {
                psAesDecryptCBC(ctx, in.p + st[j] * bl, out.p + st[j] * bl, (uint32_t) (ln[j] * bl));
            }
            else
            {
                psAesEncryptCBC(ctx, in.p + st[j] * bl, out.p + st[j] * bl, (uint32_t) (ln[j] * bl));
            }
        }
        free(ctx);
    }
    if (rc < 0)
    {
        snprintf(what, 320, "%s: init failed rc=%d", human, rc);
        r = 1;
    }
    else
    {
        r = cmp_report("output", exp, out.p, (size_t) nb, what, human);
    }
    free(exp);
    xfree(key); xfree(iv); xfree(in);
    if (pc->o >= 0)
    {
        xfree(out);
    }
    return r;
}

/* ------------------------------------------------------------------- GCM */
static const uch *aead_key(const pc_t *pc) { return KEYM + 700 + (pc->k % 5) * 33; }
static const uch *aead_iv(const pc_t *pc) { return KEYM + 900 + (pc->k % 5) * 13 + (pc->x % 3); }
static const uch *aead_aad(const pc_t *pc) { return MSG + 30000 + (pc->x * 7) % 50; }

/* seal side.  g = key size index, n = length, x = aad length, z = tag length 1..16,
 * y: 0 psAesEncryptGCM + psAesGetGCMTag, 1 psAesDecryptGCMtagless + psAesGetGCMTag (keystream/tag direction of the receiver);
 * k: bits 0..2 key/nonce variant, bit 3 (k>=8) = context re-use: the same context first processes another complete
 *    message (Ready/Encrypt/GetTag with the same tag length) before the measured one, as a TLS connection does */
static int prim_gcm(const pc_t *pc, char *human, char *what)
{
    int kl = aes_kl[pc->g], st[MAXSEG], ln[MAXSEG], ns, j, r, rc, reuse = pc->k >= 8;
    const uch *msg = msg_for(pc);
    uch *ect = malloc((size_t) pc->n + 1), etag[16];
    xb_t key = xdup(aead_key(pc), (size_t) kl, 0), iv = xdup(aead_iv(pc), 12, 0), aad = xdup(aead_aad(pc), (size_t) pc->x, pc->i), in, out,
         tag = xout((size_t) pc->z, 0);
    psAesGcm_t *ctx = malloc(sizeof(*ctx));
    snprintf(human, 160, "aes%d-gcm %s len=%d aad=%d tag=%d part=%d/%d/%d inoff=%d outoff=%d%s", kl * 8, pc->y ? "tagless-dec" : "enc", pc->n,
        pc->x, pc->z, pc->m, pc->a, pc->b, pc->i, pc->o, reuse ? " ctx-reuse" : "");
    {
        static int c_g = -1, c_k, c_x, c_n;
        static const uch *c_msg;
        static uch *c_ct, c_tag[16];
        static size_t c_cap;
        if (c_g != pc->g || c_k != pc->k || c_x != pc->x || c_n != pc->n || c_msg != msg)
        {
            if (c_cap < (size_t) pc->n + 1)
            {
                c_cap = (size_t) pc->n + 1;
                c_ct = realloc(c_ct, c_cap);
            }
            ref_seal(RC_AES128_GCM + pc->g, key.p, iv.p, aad.p, (size_t) pc->x, msg, (size_t) pc->n, c_ct, c_tag);
            c_g = pc->g; c_k = pc->k; c_x = pc->x; c_n = pc->n; c_msg = msg;
        }
        memcpy(ect, c_ct, (size_t) pc->n);
        memcpy(etag, c_tag, 16);
    }
    /* y=0: input = plaintext, expected output = ct.  y=1: input = ct, expected output = plaintext */
    in = xdup(pc->y ? ect : msg, (size_t) pc->n, pc->i);
    out = pc->o < 0 ? in : xout((size_t) pc->n, pc->o);
    vhex("key", key.p, (size_t) kl);
    vhex("nonce", iv.p, 12);
    vhex("aad", aad.p, (size_t) pc->x);
    vhex("input", in.p, (size_t) pc->n);
    memset(ctx, 0xEE, sizeof(*ctx));
    rc = psAesInitGCM(ctx, key.p, (uint8_t) kl);
    if (rc < 0)
    {
        snprintf(what, 320, "%s: psAesInitGCM rc=%d", human, rc);
        r = 1;
        goto done;
    }
    if (reuse)
    {
        uch d_in[17], d_out[17], d_tag[16];
        memcpy(d_in, MSG + 5, 17);
        psAesReadyGCM(ctx, KEYM + 950, MSG + 77, 5);
        psAesEncryptGCM(ctx, d_in, d_out, 17);
        psAesGetGCMTag(ctx, (uint8_t) pc->z, d_tag);
    }
    psAesReadyGCM(ctx, iv.p, aad.p, (psSize_t) pc->x);
    ns = segs(pc->n, pc->m, pc->a, pc->b, st, ln);
    for (j = 0; j < ns; j++)
    {
        if (pc->y)
        {
            psAesDecryptGCMtagless(ctx, in.p + st[j], out.p + st[j], (uint32_t) ln[j]);
        }
        else
        {
            psAesEncryptGCM(ctx, in.p + st[j], out.p + st[j], (uint32_t) ln[j]);
        }
    }
    psAesGetGCMTag(ctx, (uint8_t) pc->z, tag.p);
    r = cmp_report(pc->y ? "plaintext" : "ciphertext", pc->y ? msg : ect, out.p, (size_t) pc->n, what, human);
    if (!r)
    {
        r = cmp_report("tag", etag, tag.p, (size_t) pc->z, what, human);
    }
done:
    free(ctx); free(ect);
    xfree(key); xfree(iv); xfree(aad); xfree(in); xfree(tag);
    if (pc->o >= 0)
    {
        xfree(out);
    }
    return r;
}

static const char *flip_tgt[] = { "untouched", "ct", "tag", "nonce", "aad", "truncated" };
/* modify the tuple: a = 0 untouched, 1 ct bit b, 2 tag bit b, 3 nonce bit b, 4 aad bit b.  returns 0 if not applicable */
static int apply_flip(int a, int b, uch *ct, int n, uch *tag, int tl, uch *iv, uch *aad, int al)
{
    uch *p = NULL;
    int len = 0;
    switch (a)
    {
    case 0: return 1;
    case 1: p = ct; len = n; break;
    case 2: p = tag; len = tl; break;
    case 3: p = iv; len = 12; break;
    case 4: p = aad; len = al; break;
    default: return 0;
    }
    if (b < 0 || b >= 8 * len)
    {
        return 0;
    }
    p[b / 8] ^= (uch) (1 << (b % 8));
    return 1;
}

/* open side.  y = 1 psAesDecryptGCM (ct||tag, tag length = ctLen-ptLen = z), 2 psAesDecryptGCM2 (detached tag, tagLen = z);
 * a/b = modification (see apply_flip); a = 5: the record ct||tag(16) loses its last b bytes and the receiver parses the
 * remainder as ct'||tag'(16).  Oracle: accept exactly when OpenSSL accepts the same tuple with the same tag length,
 * and then with the same plaintext. */
static int prim_gcmopen(const pc_t *pc, char *human, char *what)
{
    int kl = aes_kl[pc->g], n = pc->n, tl = pc->z, r = 0, rc, refok;
    const uch *msg = msg_for(pc);
    uch *ct = malloc((size_t) n + 17), tag[16], ivb[12], *aadb = malloc((size_t) pc->x + 1), *ept = malloc((size_t) n + 1);
    psAesGcm_t *ctx = malloc(sizeof(*ctx));
    xb_t key = xdup(aead_key(pc), (size_t) kl, 0), iv, aad, in, tg, out;
    snprintf(human, 160, "aes%d-gcm open api=%s len=%d aad=%d tag=%d %s bit=%d", kl * 8, pc->y == 1 ? "psAesDecryptGCM" : "psAesDecryptGCM2",
        n, pc->x, tl, flip_tgt[pc->a], pc->b);
    memcpy(ivb, aead_iv(pc), 12);
    memcpy(aadb, aead_aad(pc), (size_t) pc->x);
    ref_seal(RC_AES128_GCM + pc->g, key.p, ivb, aadb, (size_t) pc->x, msg, (size_t) n, ct, tag);
    if (pc->a == 5)
    {
        /* truncated record, re-parsed with a 16-byte tag */
        int total = n + 16 - pc->b;
        if (pc->b < 1 || total < 16)
        {
            r = 2;
            goto early;
        }
        memcpy(ct + n, tag, 16);
        n = total - 16;
        memcpy(tag, ct + n, 16);
        tl = 16;
    }
    else if (!apply_flip(pc->a, pc->b, ct, n, tag, tl, ivb, aadb, pc->x))
    {
        r = 2;
        goto early;
    }
    refok = ref_open(RC_AES128_GCM + pc->g, key.p, ivb, aadb, (size_t) pc->x, ct, (size_t) n, tag, tl, ept);
    iv = xdup(ivb, 12, 0);
    aad = xdup(aadb, (size_t) pc->x, 0);
    out = xout((size_t) n, 0);
    memset(ctx, 0xEE, sizeof(*ctx));
    rc = psAesInitGCM(ctx, key.p, (uint8_t) kl);
    if (rc >= 0)
    {
        psAesReadyGCM(ctx, iv.p, aad.p, (psSize_t) pc->x);
        if (pc->y == 1)
        {
            in = xout((size_t) (n + tl), 0);
            memcpy(in.p, ct, (size_t) n);
            memcpy(in.p + n, tag, (size_t) tl);
            vhex("ct||tag", in.p, (size_t) (n + tl));
            rc = psAesDecryptGCM(ctx, in.p, (uint32_t) (n + tl), out.p, (uint32_t) n);
            xfree(in);
        }
        else
        {
            in = xdup(ct, (size_t) n, 0);
            tg = xdup(tag, (size_t) tl, 0);
            vhex("ct", in.p, (size_t) n);
            vhex("tag", tg.p, (size_t) tl);
            rc = psAesDecryptGCM2(ctx, in.p, out.p, (uint32_t) n, tg.p, (uint32_t) tl);
            xfree(in); xfree(tg);
        }
    }
    if (g_verbose)
    {
        fprintf(stderr, "  matrixssl rc=%d, openssl %s\n", rc, refok ? "accepts" : "rejects");
    }
    if ((rc >= 0) != (refok != 0))
    {
        snprintf(what, 320, "%s: MatrixSSL %s (rc=%d) but the tuple %s", human, rc >= 0 ? "ACCEPTED" : "rejected", rc,
            refok ? "is authentic (OpenSSL accepts)" : "is not authentic (OpenSSL rejects)");
        r = 1;
    }
    else if (rc >= 0)
    {
        r = cmp_report("plaintext", ept, out.p, (size_t) n, what, human);
    }
    else
    {
        r = pc->a == 0 ? 0 : 0;
    }
    xfree(iv); xfree(aad); xfree(out);
early:
    free(ctx); free(ct); free(aadb); free(ept);
    xfree(key);
    return r;
}

/* ------------------------------------------------------ ChaCha20-Poly1305 */
static void cha_impl(int g)
{
    /* the implementation is chosen at the first psChacha20Poly1305IetfInit of the process */
    if (g)
    {
        setenv("MATRIX_CHACHA20POLY1305_REF", "1", 1);
    }
    else
    {
        unsetenv("MATRIX_CHACHA20POLY1305_REF");
    }
}

/* g = implementation (0 best available, 1 reference), n = length, x = aad length, y = 0 EncryptDetached / 1 Encrypt (ct||tag),
 * o = -1 in place */
static int prim_chacha(const pc_t *pc, char *human, char *what)
{
    const uch *msg = msg_for(pc);
    uch *ect = malloc((size_t) pc->n + 1), etag[16];
    xb_t key = xdup(aead_key(pc), 32, 0), iv = xdup(aead_iv(pc), 12, 0), aad = xdup(aead_aad(pc), (size_t) pc->x, pc->i), in, out, tag = xout(16, 0);
    psChacha20Poly1305Ietf_t *ctx = malloc(sizeof(*ctx));
    int r, extra = pc->y ? 16 : 0;
    psResSize_t rc;
    snprintf(human, 160, "chacha20poly1305%s %s len=%d aad=%d inoff=%d outoff=%d", pc->g ? "-ref" : "", pc->y ? "encrypt" : "encrypt-detached", pc->n,
        pc->x, pc->i, pc->o);
    cha_impl(pc->g);
    ref_seal(RC_CHAPOLY, key.p, iv.p, aad.p, (size_t) pc->x, msg, (size_t) pc->n, ect, etag);
    if (pc->o < 0)
    {
        /* in place: the buffer must have room for the tag in the combined API */
        in = xout((size_t) (pc->n + extra), pc->i);
        memcpy(in.p, msg, (size_t) pc->n);
        out = in;
    }
    else
    {
        in = xdup(msg, (size_t) pc->n, pc->i);
        out = xout((size_t) (pc->n + extra), pc->o);
    }
    vhex("key", key.p, 32);
    vhex("nonce", iv.p, 12);
    vhex("aad", aad.p, (size_t) pc->x);
    vhex("plaintext", msg, (size_t) pc->n);
    psChacha20Poly1305IetfInit(ctx, key.p);
    if (pc->y)
    {
        rc = psChacha20Poly1305IetfEncrypt(ctx, in.p, (psSizeL_t) pc->n, iv.p, aad.p, (psSizeL_t) pc->x, out.p);
    }
    else
    {
        rc = psChacha20Poly1305IetfEncryptDetached(ctx, in.p, (psSizeL_t) pc->n, iv.p, aad.p, (psSize_t) pc->x, out.p, tag.p);
    }
    if (rc != pc->n + extra)
    {
        snprintf(what, 320, "%s: returned %d, expected %d", human, (int) rc, pc->n + extra);
        r = 1;
    }
    else
    {
        r = cmp_report("ciphertext", ect, out.p, (size_t) pc->n, what, human);
        if (!r)
        {
            r = cmp_report("tag", etag, pc->y ? out.p + pc->n : tag.p, 16, what, human);
        }
    }
    free(ctx); free(ect);
    xfree(key); xfree(iv); xfree(aad); xfree(in); xfree(tag);
    if (pc->o >= 0)
    {
        xfree(out);
    }
    return r;
}

/* y = 2 DecryptDetached, 3 Decrypt (ct||tag); a/b modification as for GCM (a=5: record shortened by b bytes, combined API only);
 * o = -1 in place (plaintext written over the ciphertext) */
static int prim_chaopen(const pc_t *pc, char *human, char *what)
{
    int n = pc->n, r = 0, refok;
    const uch *msg = msg_for(pc);
    uch *ct = malloc((size_t) n + 17), tag[16], ivb[12], *aadb = malloc((size_t) pc->x + 1), *ept = malloc((size_t) n + 1);
    psChacha20Poly1305Ietf_t *ctx = malloc(sizeof(*ctx));
    xb_t key = xdup(aead_key(pc), 32, 0), iv, aad, in, tg, out;
    psResSize_t rc;
    snprintf(human, 160, "chacha20poly1305%s open api=%s len=%d aad=%d %s bit=%d%s", pc->g ? "-ref" : "", pc->y == 3 ? "decrypt" : "decrypt-detached",
        n, pc->x, flip_tgt[pc->a], pc->b, pc->o < 0 ? " inplace" : "");
    cha_impl(pc->g);
    memcpy(ivb, aead_iv(pc), 12);
    memcpy(aadb, aead_aad(pc), (size_t) pc->x);
    ref_seal(RC_CHAPOLY, key.p, ivb, aadb, (size_t) pc->x, msg, (size_t) n, ct, tag);
    if (pc->a == 5)
    {
        int total = n + 16 - pc->b;
        if (pc->b < 1 || pc->y != 3)
        {
            r = 2;
            goto early;
        }
        memcpy(ct + n, tag, 16);
        if (total < 16)
        {
            /* shorter than a tag: must be refused */
            in = xdup(ct, (size_t) total, 0);
            out = xout(1, 0);
            iv = xdup(ivb, 12, 0);
            aad = xdup(aadb, (size_t) pc->x, 0);
            psChacha20Poly1305IetfInit(ctx, key.p);
            rc = psChacha20Poly1305IetfDecrypt(ctx, in.p, (psSizeL_t) total, iv.p, aad.p, (psSizeL_t) pc->x, out.p);
            xfree(in); xfree(out); xfree(iv); xfree(aad);
            if (rc >= 0)
            {
                snprintf(what, 320, "%s: a %d-byte input (shorter than the tag) was ACCEPTED rc=%d", human, total, (int) rc);
                r = 1;
            }
            goto early;
        }
        n = total - 16;
        memcpy(tag, ct + n, 16);
    }
    else if (!apply_flip(pc->a, pc->b, ct, n, tag, 16, ivb, aadb, pc->x))
    {
        r = 2;
        goto early;
    }
    refok = ref_open(RC_CHAPOLY, key.p, ivb, aadb, (size_t) pc->x, ct, (size_t) n, tag, 16, ept);
    iv = xdup(ivb, 12, 0);
    aad = xdup(aadb, (size_t) pc->x, 0);
    psChacha20Poly1305IetfInit(ctx, key.p);
    if (pc->y == 3)
    {
        in = xout((size_t) (n + 16), 0);
        memcpy(in.p, ct, (size_t) n);
        memcpy(in.p + n, tag, 16);
        out = pc->o < 0 ? in : xout((size_t) n, 0);
        vhex("ct||tag", in.p, (size_t) (n + 16));
        rc = psChacha20Poly1305IetfDecrypt(ctx, in.p, (psSizeL_t) (n + 16), iv.p, aad.p, (psSizeL_t) pc->x, out.p);
    }
    else
    {
        in = xdup(ct, (size_t) n, 0);
        tg = xdup(tag, 16, 0);
        out = pc->o < 0 ? in : xout((size_t) n, 0);
        vhex("ct", in.p, (size_t) n);
        vhex("tag", tg.p, 16);
        rc = psChacha20Poly1305IetfDecryptDetached(ctx, in.p, (psSizeL_t) n, iv.p, aad.p, (psSizeL_t) pc->x, tg.p, out.p);
        xfree(tg);
    }
    if (g_verbose)
    {
        fprintf(stderr, "  matrixssl rc=%d, openssl %s\n", (int) rc, refok ? "accepts" : "rejects");
    }
    if ((rc >= 0) != (refok != 0))
    {
        snprintf(what, 320, "%s: MatrixSSL %s (rc=%d) but the tuple %s", human, rc >= 0 ? "ACCEPTED" : "rejected", (int) rc,
            refok ? "is authentic (OpenSSL accepts)" : "is not authentic (OpenSSL rejects)");
        r = 1;
    }
    else if (rc >= 0)
    {
        if (rc != n)
        {
            snprintf(what, 320, "%s: returned length %d, expected %d", human, (int) rc, n);
            r = 1;
        }
        else
        {
            r = cmp_report("plaintext", ept, out.p, (size_t) n, what, human);
        }
    }
    xfree(in);
    if (pc->o >= 0)
    {
        xfree(out);
    }
    xfree(iv); xfree(aad);
early:
    free(ctx); free(ct); free(aadb); free(ept);
    xfree(key);
    return r;
}

#endif
