/* drv_c17 - C17: no AEAD nonce reuse under a key; sequence numbers strictly increase; CBC IVs fresh.
 *
 * A monitor on the record-protection seam (env_crypto_hook: every psAes*GCM /
 * psChacha20Poly1305Ietf* / psAes*CBC call the TLS layer makes) logs (key, nonce, data) of
 * every seal from the first handshake byte on.  The explorer runs, per suite x version,
 * EVERY operation sequence up to a depth over a send-side alphabet by fork-DFS from the
 * completed handshake (DTLS: additionally every single loss/duplication/timeout deviation
 * inside the handshake). */
#include "mxv.h"
#include "wire.h"

static int thorough;

typedef struct { int ver, kx; uint16_t suite; const char *name; int cbc; int early, hrr, resume; } pcfg_t;
static const pcfg_t pcfgs[] = {
    { V_TLS12, KX_RSA, TLS_RSA_WITH_AES_128_GCM_SHA256, "tls12-gcm128", 0 },
    { V_TLS12, KX_ECDHE_RSA, TLS_ECDHE_RSA_WITH_AES_256_GCM_SHA384, "tls12-ecdhe-gcm256", 0 },
    { V_DTLS12, KX_RSA, TLS_RSA_WITH_AES_128_GCM_SHA256, "dtls12-gcm128", 0 },
    { V_TLS13, KX_13_PSK, TLS_AES_128_GCM_SHA256, "tls13-gcm128-psk", 0 },
    { V_TLS13, KX_13_RSA, TLS_AES_256_GCM_SHA384, "tls13-gcm256", 0 },
    { V_TLS13, KX_13_RSA, TLS_CHACHA20_POLY1305_SHA256, "tls13-chacha", 0 },
    { V_TLS11, KX_PSK, TLS_PSK_WITH_AES_128_CBC_SHA, "tls11-cbc", 1 },
    { V_TLS12, KX_PSK, TLS_PSK_WITH_AES_128_CBC_SHA256, "tls12-cbc-sha256", 1 },
    { V_TLS12, KX_PSK, TLS_PSK_WITH_AES_256_CBC_SHA384, "tls12-cbc256-sha384", 1 },
    { V_DTLS10, KX_PSK, TLS_PSK_WITH_AES_128_CBC_SHA, "dtls10-cbc", 1 },
    { V_DTLS12, KX_PSK, TLS_PSK_WITH_AES_128_CBC_SHA256, "dtls12-cbc-sha256", 1 },
    /* TLS 1.3 key phases beyond the plain handshake: 0-RTT data under the early traffic key (external PSK: rejected by the
       server; ticket resumption: accepted), a second ClientHello after HelloRetryRequest, and both together */
    { V_TLS13, KX_13_PSK, TLS_AES_128_GCM_SHA256, "tls13-psk-0rtt", 0, 1, 0, 0 },
    { V_TLS13, KX_13_PSK, TLS_AES_128_GCM_SHA256, "tls13-psk-0rtt-hrr", 0, 1, 1, 0 },
    { V_TLS13, KX_13_RSA, TLS_AES_128_GCM_SHA256, "tls13-hrr", 0, 0, 1, 0 },
    { V_TLS13, KX_13_RSA, TLS_AES_128_GCM_SHA256, "tls13-ticket-0rtt-accepted", 0, 1, 0, 1 },
};
#define NPCFG ((int) (sizeof(pcfgs) / sizeof(pcfgs[0])))

/* ------------------------------------------------------------- monitor */
#define MAXSEAL 4096
typedef struct { uint64_t key; unsigned char nonce[12]; uint64_t data; uint32_t len; } seal_t;
static seal_t seals[MAXSEAL];
static int nseals;
#define MAXCTX 16
static struct { const void *ctx; uint64_t key; unsigned char nonce[12]; int have_nonce, readied; } ctxs[MAXCTX];
static int nctx;
static char mon_violation[200];
static int mon_dtls, mon_tls13;
static int mon_identical_reseals;

/* per key: the first and the last nonce (the strict-increase check does not depend on the bounded seal log) */
#define MAXKEYS 32
static struct { uint64_t key; unsigned char first[12], last[12]; long count; } keytab[MAXKEYS];
static int nkeytab;
/* record MAC of the CBC suites: per (role of the MAC, key) the last sequence number bound into a MAC */
static struct { uint64_t key; int verify; unsigned char last[8]; long count; } mactab[MAXKEYS];
static int nmactab;
static long mon_macs;

static void note_mac(int verify, const unsigned char *key, int keylen, const unsigned char *seq)
{
    uint64_t kh = fnv1a(key, (size_t) keylen, FNV0 ^ 0x4d4143);
    int i;
    mon_macs++;
    for (i = 0; i < nmactab; i++)
    {
        if (mactab[i].key == kh && mactab[i].verify == verify)
        {
            int c = memcmp(mactab[i].last, seq, 8);
            if (c == 0 && !mon_dtls && !mon_violation[0])
            {
                snprintf(mon_violation, sizeof(mon_violation), verify ? "mac-verify-sequence-number-repeated" : "mac-sequence-number-reused");
            }
            else if (c > 0 && !mon_dtls && !mon_violation[0])
            {
                snprintf(mon_violation, sizeof(mon_violation), verify ? "mac-verify-sequence-number-not-increasing" : "mac-sequence-number-not-increasing");
            }
            memcpy(mactab[i].last, seq, 8);
            mactab[i].count++;
            return;
        }
    }
    if (nmactab < MAXKEYS)
    {
        mactab[nmactab].key = kh; mactab[nmactab].verify = verify; mactab[nmactab].count = 1;
        memcpy(mactab[nmactab].last, seq, 8);
        nmactab++;
    }
}

static int ctx_slot(const void *c)
{
    int i;
    for (i = 0; i < nctx; i++)
    {
        if (ctxs[i].ctx == c)
        {
            return i;
        }
    }
    if (nctx < MAXCTX)
    {
        ctxs[nctx].ctx = c;
        ctxs[nctx].key = 0;
        ctxs[nctx].have_nonce = 0;
        return nctx++;
    }
    return 0;
}

static int nonce_cmp_counter(const unsigned char *base, const unsigned char *a, const unsigned char *b)
{
    /* compare (a xor base) with (b xor base) as 96-bit big-endian counters */
    int i;
    for (i = 0; i < 12; i++)
    {
        unsigned char x = a[i] ^ base[i], y = b[i] ^ base[i];
        if (x != y)
        {
            return x < y ? -1 : 1;
        }
    }
    return 0;
}

static void note_seal(uint64_t key, const unsigned char *nonce, const unsigned char *data, unsigned len)
{
    uint64_t dh = fnv1a(data, len, FNV0 ^ len);
    int i, last = -1, first = -1;
    for (i = 0; i < nseals; i++)
    {
        if (seals[i].key != key)
        {
            continue;
        }
        if (first < 0)
        {
            first = i;
        }
        last = i;
        if (memcmp(seals[i].nonce, nonce, 12) == 0)
        {
            if (seals[i].data != dh || seals[i].len != len)
            {
                if (!mon_violation[0])
                {
                    snprintf(mon_violation, sizeof(mon_violation), "nonce-reused-for-different-record");
                }
            }
            else
            {
                mon_identical_reseals++;
                if (!mon_dtls && !mon_violation[0])
                {
                    snprintf(mon_violation, sizeof(mon_violation), "nonce-reused-for-identical-record-on-tls");
                }
            }
        }
    }
    /* strictly increasing sequence number bound into the nonce (per key): with base = first nonce of the key
       (sequence 0 for a fresh TLS 1.3 key; for TLS 1.2 GCM the explicit part IS the sequence number, xor with the
       first value preserves order only from a zero base, so compare raw there) */
    (void) last; (void) first;
    {
        static const unsigned char zero[12];
        int raw = !mon_tls13; /* TLS 1.2 GCM: explicit nonce is the sequence number itself; TLS 1.3: nonce = iv xor seq, seq 0 at the key's first seal */
        int k;
        for (k = 0; k < nkeytab && keytab[k].key != key; k++)
        {
        }
        if (k < nkeytab)
        {
            int c = raw ? nonce_cmp_counter(zero, keytab[k].last, nonce) : nonce_cmp_counter(keytab[k].first, keytab[k].last, nonce);
            if (c > 0 && !mon_dtls && !mon_violation[0])
            {
                snprintf(mon_violation, sizeof(mon_violation), "sequence-number-not-increasing");
            }
            if (c == 0 && nseals >= MAXSEAL && !mon_dtls && !mon_violation[0])
            {
                /* beyond the bounded seal log the per-key counter is the only witness: an equal nonce is a reuse */
                snprintf(mon_violation, sizeof(mon_violation), "nonce-reused-for-different-record");
            }
            memcpy(keytab[k].last, nonce, 12);
            keytab[k].count++;
        }
        else if (nkeytab < MAXKEYS)
        {
            keytab[nkeytab].key = key; keytab[nkeytab].count = 1;
            memcpy(keytab[nkeytab].first, nonce, 12);
            memcpy(keytab[nkeytab].last, nonce, 12);
            nkeytab++;
        }
    }
    if (nseals < MAXSEAL)
    {
        seals[nseals].key = key;
        memcpy(seals[nseals].nonce, nonce, 12);
        seals[nseals].data = dh;
        seals[nseals].len = len;
        nseals++;
    }
}

static void hook(int op, const void *ctx, const unsigned char *a, int alen, const unsigned char *b, unsigned blen)
{
    int s = (op == ENV_OP_MAC_CREATE || op == ENV_OP_MAC_VERIFY) ? 0 : ctx_slot(ctx);
    switch (op)
    {
    case ENV_OP_GCM_INIT:
    case ENV_OP_CHACHA_INIT:
        ctxs[s].key = fnv1a(a, (size_t) alen, FNV0 ^ 0x77);
        ctxs[s].have_nonce = 0;
        ctxs[s].readied = 0;
        break;
    case ENV_OP_GCM_READY:
        memcpy(ctxs[s].nonce, a, 12);
        ctxs[s].have_nonce = 1;
        ctxs[s].readied = 1;
        break;
    case ENV_OP_GCM_ENC:
        if (ctxs[s].have_nonce)
        {
            note_seal(ctxs[s].key, ctxs[s].nonce, b, blen);
            ctxs[s].have_nonce = 0; /* one seal per Ready */
        }
        else if (!ctxs[s].readied)
        {
            /* not a record seal: a context keyed and used once with a random IV (psAesReadyGCMRandomIV, the TLS 1.3
               session-ticket encryption in tls13Resume.c) never went through the record layer's nonce set-up */
        }
        else if (!mon_violation[0])
        {
            snprintf(mon_violation, sizeof(mon_violation), "gcm-encrypt-continues-without-new-nonce");
        }
        break;
    case ENV_OP_CHACHA_ENC:
        note_seal(ctxs[s].key, a, b, blen);
        break;
    case ENV_OP_MAC_CREATE:
    case ENV_OP_MAC_VERIFY:
        note_mac(op == ENV_OP_MAC_VERIFY, a, alen, b);
        break;
    default:
        break;
    }
}

/* ------------------------------------------------------ CBC wire monitor */
#define MAXBLK 8192
static uint64_t blocks[2][MAXBLK];
static int nblocks[2];
static uint64_t ent_before;
static int cbc_records_pending;
static char cbc_violation[200];

/* examine every unit currently on wire[side] that has not been examined yet */
static int seen_ccs[2];
static uint64_t rechash[2][1024];
static int nrechash[2];
static void cbc_scan(world_t *w, int side, int hdr, int cbc, uint64_t entropy_delta_bytes, int *newrecs)
{
    wire_t *q = &w->wire[side];
    int i, n = 0;
    (void) entropy_delta_bytes;
    for (i = 0; i < q->n; i++)
    {
        rec_t *r = &q->r[(q->head + i) % W_MAXREC];
        int off = 0;
        if (r->len <= 0)
        {
            continue;
        }
        /* units carry a marker in the byte after the payload: world_wire_push allocates len+1 */
        if (r->p[r->len] == 0xEE)
        {
            continue;
        }
        r->p[r->len] = 0xEE;
        while (off + hdr <= r->len)
        {
            int rl = (r->p[off + hdr - 2] << 8) | r->p[off + hdr - 1];
            int protected_rec = 0;
            if (off + hdr + rl > r->len)
            {
                break;
            }
            if (hdr == 13)
            {
                protected_rec = (r->p[off + 3] | r->p[off + 4]) != 0; /* epoch > 0 */
            }
            else
            {
                protected_rec = seen_ccs[side]; /* TLS <= 1.2: everything a side sends after its ChangeCipherSpec */
                if (r->p[off] == 20)
                {
                    seen_ccs[side] = 1;
                }
            }
            if (cbc && protected_rec && rl >= 32 && rl % 16 == 0)
            {
                uint64_t wh = fnv1a(r->p + off, (size_t) (hdr + rl), FNV0);
                int known = 0, b;
                for (b = 0; b < nrechash[side]; b++)
                {
                    if (rechash[side][b] == wh)
                    {
                        known = 1;
                    }
                }
                if (known && hdr == 13)
                {
                    /* DTLS retransmission that repeats an earlier record byte-for-byte: allowed */
                    off += hdr + rl;
                    continue;
                }
                if (nrechash[side] < 1024)
                {
                    rechash[side][nrechash[side]++] = wh;
                }
                if (getenv("MXV_DEBUG"))
                {
                    char hx[200];
                    hexstr(hx, r->p + off, (size_t) (hdr + 32 < 90 ? hdr + 32 : 90));
                    fprintf(stderr, "CBCREC side %d len %d: %s\n", side, rl, hx);
                }
                uint64_t ivh = fnv1a(r->p + off + hdr, 16, FNV0);
                for (b = 0; b < nblocks[side]; b++)
                {
                    if (blocks[side][b] == ivh && !cbc_violation[0])
                    {
                        snprintf(cbc_violation, sizeof(cbc_violation), "cbc-iv-equals-earlier-ciphertext-block");
                    }
                }
                for (b = 0; b + 16 <= rl && nblocks[side] < MAXBLK; b += 16)
                {
                    blocks[side][nblocks[side]++] = fnv1a(r->p + off + hdr + b, 16, FNV0);
                }
                n++;
            }
            off += hdr + rl;
        }
    }
    *newrecs = n;
}

/* ------------------------------------------------------------- explorer */
/* O_SENDMANY (first operation of a path only): the side sends long_run one-byte records, delivered in bursts of 16: the
 * record sequence number crosses its first carry at 256 (thorough, TLS: also the second at 65536) under one key */
/* O_SEQ_LAST (first operation only): the side's write sequence number is set to its last-but-one value ff..fe - a state
 * 2^64 (DTLS 2^48) records away, entered directly (white box) - and three one-byte records are sent: the counter must never
 * wrap into numbers the key has used.  O_RNG_FAILS: the platform entropy source fails from now on (seam), then one byte is
 * sent: a CBC record without a freshly drawn IV must not be produced. */
enum { O_SEND1 = 0, O_SENDBIG, O_SEND0, O_GARBAGE, O_CLOSE, O_USERBUF, O_TIMEOUT, O_SENDMANY, O_SEQ_LAST, O_RNG_FAILS, O_NSIDEOPS };
static const char *oname[] = { "send1", "send16385", "send0", "garbage-in", "closure", "encode-userbuf", "timeout", "send-many", "sequence-number-at-its-end", "entropy-source-fails" };
static int long_run = 300;

typedef struct {
    world_t w;
    int pi;
    int depth, maxdepth;
    char path[96];
    int hs_dev_step, hs_dev_kind;
} gctx_t;

static int hdr_of(const pcfg_t *pc) { return ver_is_dtls(pc->ver) ? 13 : 5; }

/* run fn and then check the CBC side conditions for what it emitted */
static void after_action(gctx_t *g, uint64_t ent0)
{
    const pcfg_t *pc = &pcfgs[g->pi];
    int s;
    uint64_t drawn = env_entropy_bytes - ent0;
    int total_new = 0;
    for (s = 0; s < 2; s++)
    {
        int n = 0;
        cbc_scan(&g->w, s, hdr_of(pc), pc->cbc, drawn, &n);
        total_new += n;
    }
    if (pc->cbc && total_new > 0 && drawn < (uint64_t) total_new * 16 && !cbc_violation[0])
    {
        snprintf(cbc_violation, sizeof(cbc_violation), "cbc-iv-not-freshly-drawn");
        world_tracef(&g->w, "MONITOR: %d new CBC records but only %llu entropy bytes drawn in this step\n", total_new, (unsigned long long) drawn);
    }
}

static int apply_op(gctx_t *g, int side, int op)
{
    const pcfg_t *pc = &pcfgs[g->pi];
    static unsigned char big[16385];
    unsigned char rec[128], junk[48];
    int maj, min, len, rc = 0;
    uint64_t e0 = env_entropy_bytes;
    switch (op)
    {
    case O_SEND1:
        rc = world_app_send(&g->w, side, (const unsigned char *) "x", 1);
        break;
    case O_SENDBIG:
        memset(big, 0x42 + side, sizeof(big));
        rc = world_app_send(&g->w, side, big, ver_is_dtls(pc->ver) ? 1000 : 16385);
        break;
    case O_SEND0:
        rc = world_app_send(&g->w, side, (const unsigned char *) "", 0);
        break;
    case O_GARBAGE:
        memset(junk, 0x99, sizeof(junk));
        wire_version_bytes(pc->ver, &maj, &min);
        len = mk_record(rec, ver_is_dtls(pc->ver), 23, maj, min, 1, 77, junk, 48);
        rc = world_feed(&g->w, side, rec, len);
        break;
    case O_CLOSE:
        rc = world_close(&g->w, side);
        break;
    case O_USERBUF:
    {
        unsigned char ct[256];
        uint32 ctlen = sizeof(ct);
        unsigned char pt[5] = { 'u', 's', 'e', 'r', '!' };
        if (g->w.s[side].ssl)
        {
            rc = matrixSslEncodeToUserBuf(g->w.s[side].ssl, pt, 5, ct, &ctlen);
            if (rc >= 0 && ctlen > 0 && ctlen <= sizeof(ct))
            {
                world_wire_push(&g->w, side, ct, (int) ctlen);
            }
            g->w.actions++;
        }
        break;
    }
    case O_TIMEOUT:
        rc = world_dtls_timeout(&g->w, side);
        break;
    case O_SEQ_LAST:
    {
        ssl_t *x = g->w.s[side].ssl;
        int i;
        if (!x)
        {
            break;
        }
        if (ver_is_dtls(pc->ver))
        {
            memset(x->rsn, 0xff, 6); x->rsn[5] = 0xfe;
        }
        else
        {
            memset(x->sec.seq, 0xff, 8); x->sec.seq[7] = 0xfe;
        }
        for (i = 0; i < 3; i++)
        {
            unsigned char b = (unsigned char) (0x70 + i);
            rc = world_app_send(&g->w, side, &b, 1);
            after_action(g, e0);
            e0 = env_entropy_bytes;
            world_wire_clear(&g->w, side);   /* (the peer expects the honest count: these records are only looked at by the monitor) */
        }
        break;
    }
    case O_RNG_FAILS:
        env_entropy_fail = 1;
        rc = world_app_send(&g->w, side, (const unsigned char *) "r", 1);
        break;
    case O_SENDMANY:
    {
        int i, n = ver_is_dtls(pc->ver) && long_run > 300 ? 300 : long_run;
        size_t before = g->w.s[1 - side].delivered.len;
        for (i = 0; i < n; i++)
        {
            unsigned char b = (unsigned char) i;
            rc = world_app_send(&g->w, side, &b, 1);
            if (rc <= 0)
            {
                break;
            }
            if ((i & 15) == 15 || i + 1 == n)
            {
                after_action(g, e0);
                e0 = env_entropy_bytes;
                world_pump(&g->w, 40);
                g->w.trace.len = g->w.trace.len > 4096 ? 4096 : g->w.trace.len;   /* keep the trace of a long run bounded */
            }
        }
        if (i == n && g->w.s[1 - side].delivered.len != before + (size_t) n && !mon_violation[0])
        {
            snprintf(mon_violation, sizeof(mon_violation), "long-run-not-delivered");
        }
        break;
    }
    }
    after_action(g, e0);
    return rc;
}

static void deliver_all(gctx_t *g)
{
    uint64_t e0 = env_entropy_bytes;
    /* scan before delivery consumes the units */
    after_action(g, e0);
    e0 = env_entropy_bytes;
    world_pump(&g->w, 60);
    after_action(g, e0);
}

static void fill_result(gctx_t *g, mx_result_t *r)
{
    const pcfg_t *pc = &pcfgs[g->pi];
    const char *sym = mon_violation[0] ? mon_violation : cbc_violation[0] ? cbc_violation : NULL;
    r->nontrivial = 1;
    r->transitions = g->w.actions;
    r->trace_hash = world_trace_hash(&g->w);
    r->state_hash = fnv1a(seals, sizeof(seal_t) * (size_t) nseals, r->trace_hash);
    snprintf(r->outcome, sizeof(r->outcome), "%s:seals%s:%s", pc->name, nseals > 40 ? ">40" : nseals > 12 ? ">12" : "<=12", sym ? sym : "ok");
    if (sym)
    {
        r->violation = 1;
        snprintf(r->key, sizeof(r->key), "%s|%s", pc->name, sym);
        snprintf(r->what, sizeof(r->what), "%s: %s after operation path [%s] (seals logged %d, identical reseals %d)", pc->name, sym, g->path, nseals, mon_identical_reseals);
    }
}

static void dfs_node(void *ctx, mx_result_t *r);

static void expand(gctx_t *g)
{
    const pcfg_t *pc = &pcfgs[g->pi];
    int side, op;
    if (g->depth >= g->maxdepth || mon_violation[0] || cbc_violation[0])
    {
        return;
    }
    for (side = 0; side < 2; side++)
    {
        for (op = 0; op < O_NSIDEOPS; op++)
        {
            char desc[240];
            gctx_t *child = g; /* state is copied by fork */
            int save_depth = g->depth;
            size_t pl = strlen(g->path);
            if (op == O_TIMEOUT && !ver_is_dtls(pc->ver))
            {
                continue;
            }
            if ((op == O_SENDMANY || op == O_SEQ_LAST) && g->depth != 0)
            {
                continue;
            }
            if (mx_deadline_hit())
            {
                return;
            }
            snprintf(g->path + pl, sizeof(g->path) - pl, "%s%c:%s", pl ? "," : "", "cs"[side], oname[op]);
            snprintf(desc, sizeof(desc), "p=%d;hd=%d.%d;path=%s (%s ops=%s)", g->pi, g->hs_dev_step, g->hs_dev_kind, g->path, pc->name, g->path);
            g->depth++;
            /* the child applies the op (encoded in the path tail) */
            {
                struct { gctx_t *g; int side, op; } a = { child, side, op };
                mx_fork_case(desc, dfs_node, &a);
            }
            g->depth = save_depth;
            g->path[pl] = 0;
        }
    }
}

static void dfs_node(void *ctx, mx_result_t *r)
{
    struct { gctx_t *g; int side, op; } *a = ctx;
    gctx_t *g = a->g;
    apply_op(g, a->side, a->op);
    deliver_all(g);
    fill_result(g, r);
    expand(g); /* children record themselves */
}

enum { HD_NONE = 0, HD_DROP, HD_DUP, HD_TIMEOUT0, HD_TIMEOUT1, HD_CSEND, HD_SSEND, HD_CCLOSE, HD_SCLOSE, HD_NK };
static const char *hdname[] = { "none", "drop", "dup", "timeout-client", "timeout-server", "client-writes", "server-writes", "client-closure", "server-closure" };

/* handshake with (DTLS) one deviation at step hs_dev_step */
static int do_handshake(gctx_t *g)
{
    const pcfg_t *pc = &pcfgs[g->pi];
    wcfg_t c;
    int turn = 0, step = 0, rounds = 0;
    memset(&c, 0, sizeof(c));
    c.ver = pc->ver; c.kx = pc->kx; c.suite = pc->suite;
    c.early_data = pc->early; c.early_send = pc->early; c.hrr = pc->hrr; c.resume13 = pc->resume; c.tickets = pc->resume;
    nseals = nctx = 0;
    nblocks[0] = nblocks[1] = 0;
    seen_ccs[0] = seen_ccs[1] = 0;
    nrechash[0] = nrechash[1] = 0;
    mon_violation[0] = cbc_violation[0] = 0;
    mon_identical_reseals = 0;
    mon_dtls = ver_is_dtls(pc->ver);
    mon_tls13 = pc->ver == V_TLS13;
    env_crypto_hook = hook;
    if (world_init(&g->w, &c) < 0)
    {
        return -1;
    }
    world_collect(&g->w, 0);
    for (;;)
    {
        uint64_t e0 = env_entropy_bytes;
        int progressed = 0, d;
        after_action(g, e0);
        if (g->hs_dev_kind != HD_NONE && step == g->hs_dev_step)
        {
            step++; /* apply once */
            switch (g->hs_dev_kind)
            {
            case HD_DROP:
                for (d = 0; d < 2; d++)
                {
                    int dd = (turn + d) % 2;
                    if (g->w.wire[dd].n > 0)
                    {
                        rec_t r0 = world_wire_pop(&g->w, dd);
                        free(r0.p);
                        break;
                    }
                }
                break;
            case HD_DUP:
                for (d = 0; d < 2; d++)
                {
                    int dd = (turn + d) % 2;
                    if (g->w.wire[dd].n > 0)
                    {
                        rec_t *r0 = &g->w.wire[dd].r[g->w.wire[dd].head];
                        unsigned char *cp = malloc((size_t) r0->len);
                        int l = r0->len;
                        memcpy(cp, r0->p, (size_t) l);
                        world_deliver(&g->w, dd);
                        world_feed(&g->w, 1 - dd, cp, l);
                        free(cp);
                        break;
                    }
                }
                break;
            case HD_TIMEOUT0:
                world_dtls_timeout(&g->w, 0);
                break;
            case HD_TIMEOUT1:
                if (g->w.s[1].ssl->hsState != SSL_HS_CLIENT_HELLO) /* a server that has sent nothing has no timer */
                {
                    world_dtls_timeout(&g->w, 1);
                }
                break;
            case HD_CSEND: case HD_SSEND:
                /* the application writes in the middle of the handshake (refused, or sealed under whatever key phase is
                   active: early, handshake - never under a (key, nonce) already used) */
                world_app_send(&g->w, g->hs_dev_kind == HD_SSEND, (const unsigned char *) "mid-handshake write", 19);
                break;
            case HD_CCLOSE: case HD_SCLOSE:
                world_close(&g->w, g->hs_dev_kind == HD_SCLOSE);
                break;
            }
            after_action(g, e0);
            continue;
        }
        e0 = env_entropy_bytes;
        /* once both sides are complete the records still in flight are retransmissions: deliver them, but do not answer
           REQUEST_SEND with yet another retransmission (each duplicate of a final flight makes the receiver resend its own
           final flight, which is a duplicate for the other side: an endless ping-pong, recorded under C16) */
        g->w.no_autocollect = world_is_complete(&g->w, 0) && world_is_complete(&g->w, 1);
        progressed = world_step(&g->w, &turn);
        g->w.no_autocollect = 0;
        after_action(g, e0);
        if (progressed)
        {
            if (++step > 400)
            {
                break; /* explicit horizon */
            }
            continue;
        }
        if (world_is_complete(&g->w, 0) && world_is_complete(&g->w, 1))
        {
            break;
        }
        /* quiescent but incomplete: retransmission timers (DTLS) */
        if (!mon_dtls || rounds++ >= 4)
        {
            break;
        }
        e0 = env_entropy_bytes;
        world_dtls_timeout(&g->w, 0);
        if (g->w.s[1].ssl->hsState != SSL_HS_CLIENT_HELLO)
        {
            world_dtls_timeout(&g->w, 1);
        }
        after_action(g, e0);
    }
    return (world_is_complete(&g->w, 0) && world_is_complete(&g->w, 1)) ? 0 : 1;
}

typedef struct { int pi, step, kind; } grp_t;
static grp_t groups[2048];
static long ngroups;

static void root_case(void *ctx, mx_result_t *r)
{
    gctx_t *g = ctx;
    int hs = do_handshake(g);
    snprintf(g->path, sizeof(g->path), "%s", "");
    fill_result(g, r);
    if (hs == 0)
    {
        expand(g);
    }
    else
    {
        size_t l = strlen(r->outcome);
        snprintf(r->outcome + l, sizeof(r->outcome) - l, ":hs-incomplete");
    }
}

static void run_group(long gi, void *unused)
{
    static gctx_t g;
    char desc[160];
    (void) unused;
    memset(&g, 0, sizeof(g));
    g.pi = groups[gi].pi;
    g.hs_dev_step = groups[gi].step;
    g.hs_dev_kind = groups[gi].kind;
    g.maxdepth = (groups[gi].kind == HD_NONE) ? (thorough ? 4 : 3) : (thorough ? 2 : 1);
    snprintf(desc, sizeof(desc), "p=%d;hd=%d.%d;path= (%s handshake deviation %s at step %d)", g.pi, g.hs_dev_step, g.hs_dev_kind, pcfgs[g.pi].name,
        hdname[g.hs_dev_kind], g.hs_dev_step);
    mx_fork_case(desc, root_case, &g);
}

static int replay_path(gctx_t *g, const char *path, mx_result_t *r)
{
    char tmp[200], *tok, *save = NULL;
    if (do_handshake(g) != 0)
    {
        fill_result(g, r);
        return 0;
    }
    snprintf(tmp, sizeof(tmp), "%s", path);
    for (tok = strtok_r(tmp, ",", &save); tok; tok = strtok_r(NULL, ",", &save))
    {
        int side = tok[0] == 's', op;
        for (op = 0; op < O_NSIDEOPS; op++)
        {
            if (!strcmp(tok + 2, oname[op]))
            {
                break;
            }
        }
        if (op == O_NSIDEOPS)
        {
            return -1;
        }
        apply_op(g, side, op);
        deliver_all(g);
    }
    snprintf(g->path, sizeof(g->path), "%s", path);
    fill_result(g, r);
    return 0;
}

int main(int argc, char **argv)
{
    mx_cfg_t cfg;
    const char *replay;
    int pi;

    memset(&cfg, 0, sizeof(cfg));
    cfg.property = "C17";
    cfg.sanitizer_is_oracle = 1;
    cfg.level = "model_checking";
    cfg.engine = "fork-DFS over operation sequences with a monitor on the record-protection seam (every AEAD/CBC seal the TLS layer makes)";
    cfg.rule = "state = node of the operation tree: handshake (DTLS: with one loss/dup/timeout deviation at each step) then sequences over "
               "{send 1, send 16385 (fragments), send 0, garbage in (=> own fatal alert), closure alert, EncodeToUserBuf, DTLS timeout} x {client, server}, each followed by delivery of everything pending; "
               "every node is one distinct execution prefix; all non-trivial (the monitor is armed from the first byte)";
    cfg.assumptions[0] = "every seal goes through psAes*GCM / psChacha20Poly1305IetfEncrypt / psAes*CBC (verified with nm: undefined references from libssl_s.a), observed by link-time wrap";
    cfg.assumptions[1] = "key identity = hash of the key bytes given to the Init call; a DTLS retransmission may repeat (key, nonce) only with byte-identical plaintext";
    cfg.assumptions[2] = "CBC: the on-wire IV block of each protected record must differ from every earlier ciphertext block of that direction and >= 16 fresh entropy bytes must be drawn per CBC record (PRNG = psGetEntropy, pinned)";
    replay = mx_parse_args(argc, argv, &cfg);
    thorough = !strcmp(cfg.tier, "thorough");
    long_run = thorough ? 66000 : 300;
    cfg.bound = thorough ? "operation depth 4 after an undisturbed handshake; depth 2 after each single handshake deviation (DTLS: loss, duplication, timer; every version: an application write or a closure by either side at each handshake step)" : "operation depth 3 after an undisturbed handshake; depth 1 after each single handshake deviation (DTLS: loss, duplication, timer; every version: an application write or a closure by either side at each handshake step)";

    if (replay)
    {
        static gctx_t g;
        mx_result_t r;
        char path[200] = "";
        const char *pp;
        memset(&g, 0, sizeof(g));
        if (sscanf(replay, "p=%d;hd=%d.%d;", &g.pi, &g.hs_dev_step, &g.hs_dev_kind) != 3 || g.pi >= NPCFG)
        {
            fprintf(stderr, "bad descriptor\n");
            return 2;
        }
        pp = strstr(replay, "path=");
        if (pp)
        {
            size_t i = 0;
            pp += 5;
            while (pp[i] && pp[i] != ' ' && i < sizeof(path) - 1)
            {
                path[i] = pp[i];
                i++;
            }
            path[i] = 0;
        }
        memset(&r, 0, sizeof(r));
        snprintf(r.desc, sizeof(r.desc), "%s", replay);
        if (replay_path(&g, path, &r) < 0)
        {
            fprintf(stderr, "bad path\n");
            return 2;
        }
        fprintf(stderr, "%s", (char *) g.w.trace.p);
        mx_replay_print(&r);
        return 0;
    }
    mx_init(&cfg);
    mx_case_timeout_s = 600; /* a root case owns a whole subtree */
    for (pi = 0; pi < NPCFG; pi++)
    {
        groups[ngroups++] = (grp_t) { pi, 0, HD_NONE };
        {
            int step, kind, dt = ver_is_dtls(pcfgs[pi].ver);
            for (step = 0; step < 14; step++)
            {
                for (kind = HD_DROP; kind < HD_NK; kind++)
                {
                    if (!dt && kind < HD_CSEND)
                    {
                        continue;   /* loss / duplication / timers: DTLS only; writes and closures in the middle of the handshake: every version */
                    }
                    groups[ngroups++] = (grp_t) { pi, step, kind };
                }
            }
        }
    }
    mx_parallel(ngroups, run_group, NULL);
    return mx_finish(NULL);
}
