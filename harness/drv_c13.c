/* drv_c13 - C13: big-integer arithmetic (pstm) is mathematically exact for all operands.
 *
 * Bounded-exhaustive differential check of every pstm_* operation used by RSA, DH and ECC against OpenSSL BN
 * on structured operand universes U(d) (d = number of 64-bit digits): ALL pairs U(d1) x U(d2) for the binary
 * operations, all elements for the unary ones, reduced universes for the modular triples; every case also
 * under the aliasing patterns the API allows and with output operands that already hold stale data.
 * A group = (operation family, digit counts) runs in a forked child; cases inside run in-process. */
#include "c13_univ.h"
#include "c13_ops.h"

static int thorough;

/* --------------------------------------------------------------- accounting */
#define MAXOPF 40
typedef struct { char name[24]; long n, err_allowed, na, bad, stale; } opstat_t;
static struct { opstat_t f[MAXOPF]; int nf; long tick; int stop; } G;
typedef struct { volatile int active; bc_t c; } slot13_t;
static slot13_t *g_slot;
static int g_replay_mode;

static opstat_t *op_get(const char *name)
{
    int i;
    for (i = 0; i < G.nf; i++)
    {
        if (!strcmp(G.f[i].name, name))
        {
            return &G.f[i];
        }
    }
    if (G.nf < MAXOPF)
    {
        memset(&G.f[G.nf], 0, sizeof(G.f[0]));
        snprintf(G.f[G.nf].name, sizeof(G.f[0].name), "%s", name);
        return &G.f[G.nf++];
    }
    return &G.f[MAXOPF - 1];
}

static const char *retname[] = { "ok", "wrong-value", "error-returned", "n/a", "unclamped-or-negative-zero", "unexpected-error", "stale-high-digits", "unreduced-result" };

static void chk(const bc_t *c)
{
    char human[200] = "", what[320] = "";
    opstat_t *f;
    int r;
    if (G.stop)
    {
        return;
    }
    if (++G.tick >= 512 && !g_replay_mode)
    {
        G.tick = 0;
        if (mx_deadline_hit())
        {
            G.stop = 1;
            return;
        }
    }
    if (g_slot)
    {
        g_slot->c = *c;
        g_slot->active = 1;
    }
    r = run_case(c, human, what);
    if (g_slot)
    {
        g_slot->active = 0;
    }
    if (r == RET_ERR_UNEXPECTED && (c->d1 > 64 || c->d2 > 64 || c->d3 > 64))
    {
        /* operands above 4096 bits are beyond the largest supported key size (PSTM_MAX_SIZE = 3 x 4096 bits): an error code is acceptable there */
        r = RET_ERR_ALLOWED;
    }
    f = op_get(opname[c->op]);
    if (r == RET_NA)
    {
        f->na++;
        return;
    }
    f->n++;
    if (r == RET_ERR_ALLOWED)
    {
        f->err_allowed++;
    }
    if (r == RET_STALE)
    {
        f->stale++;
    }
    if (r == RET_WRONG || r == RET_REPR || r == RET_ERR_UNEXPECTED || r == RET_UNREDUCED)
    {
        mx_result_t res;
        f->bad++;
        memset(&res, 0, sizeof(res));
        case_desc(c, res.desc, sizeof(res.desc), human);
        res.violation = 1;
        res.nontrivial = 1;
        res.transitions = 1;
        snprintf(res.key, sizeof(res.key), "%s|%s|%s", opname[c->op], g_cls, retname[r]);
        snprintf(res.what, sizeof(res.what), "%s", what);
        snprintf(res.outcome, sizeof(res.outcome), "%s:%s", opname[c->op], retname[r]);
        res.trace_hash = fnv1a(res.key, strlen(res.key), FNV0);
        if (g_replay_mode)
        {
            fprintf(stderr, "  VIOLATION key=%s desc=%s\n    %s\n", res.key, res.desc, res.what);
        }
        else
        {
            mx_record(&res);
        }
    }
}

/* ------------------------------------------------------------------- groups */
enum { GK_PAIR = 0, GK_UNARY, GK_2EXPT, GK_MULMOD, GK_INVMOD, GK_EXPTMOD, GK_MRED, GK_MNORM, GK_N };
static const char *gkname[GK_N] = { "pair", "unary", "2expt", "mulmod", "invmod", "exptmod", "mont_reduce", "mont_norm" };
typedef struct { int kind, op, d1, d2, d3, sub; double cost; } grp_t;

static void g_pair(const grp_t *g)
{
    univ_t *u1 = get_univ(UK_U, g->d1), *u2 = get_univ(UK_U, g->d2);
    int i1, i2, s, dmax = g->d1 > g->d2 ? g->d1 : g->d2;
    bc_t c;
    memset(&c, 0, sizeof(c));
    c.op = g->op; c.d1 = g->d1; c.d2 = g->d2;
    for (i1 = 0; i1 < u1->n && !G.stop; i1++)
    {
        if (g->d3 > 1 && (i1 % g->d3) != g->sub)
        {
            continue; /* heavy groups are split into d3 interleaved slices of the first operand */
        }
        for (i2 = 0; i2 < u2->n; i2++)
        {
            c.i1 = i1; c.i2 = i2;
            switch (g->op)
            {
            case OP_ADD: case OP_SUB:
                for (s = 0; s < 4; s++)
                {
                    c.s1 = s & 1; c.s2 = s >> 1;
                    c.al = 0; c.v = 0; chk(&c);
                    c.v = 1; chk(&c);
                    c.v = 0; c.al = 1; chk(&c);
                    c.al = 2; chk(&c);
                }
                break;
            case OP_CMP:
                for (s = 0; s < 4; s++)
                {
                    c.s1 = s & 1; c.s2 = s >> 1; c.al = 0; c.v = 0;
                    chk(&c);
                }
                break;
            case OP_MUL:
                c.s1 = c.s2 = 0;
                c.al = 0; c.v = 0; chk(&c);
                c.v = 3; chk(&c);
                c.v = 4; chk(&c);
                c.v = 0; c.al = 1; chk(&c);
                c.al = 2; chk(&c);
                for (s = 1; s < 4; s++)
                {
                    c.s1 = s & 1; c.s2 = s >> 1; c.al = 0; c.v = 1;
                    chk(&c);
                }
                break;
            case OP_DIV:
                /* full variant set for small operands; the variants that only differ in NULL/alias handling are not repeated for large ones */
                for (s = 0; s < (dmax <= 9 ? 4 : 1); s++)
                {
                    c.s1 = s & 1; c.s2 = s >> 1;
                    c.al = 0; c.v = 0; chk(&c);
                    if (s == 0)
                    {
                        c.al = 1; chk(&c);
                        if (dmax <= 17)
                        {
                            c.al = 0; c.v = 1; chk(&c);
                            c.v = 0; c.al = 2; chk(&c);
                        }
                        if (dmax <= 9)
                        {
                            c.al = 0; c.v = 2; chk(&c);
                            c.v = 4; chk(&c);
                        }
                    }
                }
                break;
            default: /* OP_MOD */
                for (s = 0; s < 2; s++)
                {
                    c.s1 = s; c.s2 = 0;
                    c.al = 0; c.v = s; chk(&c);
                    if (s == 0 || dmax <= 9)
                    {
                        c.v = 0; c.al = 1; chk(&c);
                        if (dmax <= 17)
                        {
                            c.al = 2; chk(&c);
                        }
                    }
                }
            }
        }
        if (g->d1 == g->d2)
        {
            /* the two inputs are the same object (and also the output) */
            c.i1 = i1; c.i2 = i1; c.v = 0;
            for (s = 0; s < 2; s++)
            {
                c.s1 = c.s2 = s;
                c.al = 3; chk(&c);
                if (g->op != OP_CMP && g->op != OP_DIV)
                {
                    c.al = 4; chk(&c);
                }
            }
        }
    }
}

static void g_unary(const grp_t *g)
{
    univ_t *u = get_univ(UK_U, g->d1);
    int i, s, v, al, sh[16], ns = shift_amounts(g->d1, sh);
    bc_t c;
    memset(&c, 0, sizeof(c));
    c.d1 = g->d1;
    for (i = 0; i < u->n && !G.stop; i++)
    {
        c.i1 = i;
        for (s = 0; s < 2; s++)
        {
            c.s1 = s;
            for (al = 0; al < 2; al++)
            {
                c.al = al;
                c.op = OP_SQR;
                for (v = 0; v < 6; v++) { c.v = v; if (al == 0 || !(v & 1)) chk(&c); }
                for (v = 0; v < 2; v++)
                {
                    if (al == 1 && v == 1) continue;
                    c.v = v;
                    c.op = OP_MUL2; chk(&c);
                    c.op = OP_DIV2; chk(&c);
                    c.op = OP_COPY; if (al == 0) chk(&c);
                    c.op = OP_ABS; chk(&c);
                }
                for (v = 0; v < 2 * NDIGS; v++)
                {
                    if (al == 1 && (v & 1)) continue;
                    c.v = v;
                    c.op = OP_MULD; chk(&c);
                    c.op = OP_ADDD; chk(&c);
                    c.op = OP_SUBD; chk(&c);
                }
            }
            c.al = 1;
            for (v = 0; v < 8; v += 2) { c.v = v; c.op = OP_LSHD; chk(&c); c.op = OP_RSHD; chk(&c); }
            for (al = 0; al < 3; al++)
            {
                c.al = al; c.op = OP_DIV2D;
                for (v = 0; v < 2 * ns; v++)
                {
                    if (al == 1 && (v & 1)) continue;
                    c.v = v; chk(&c);
                }
            }
            c.al = 0;
            c.op = OP_INITCOPY; c.v = 0; chk(&c); c.v = 2; chk(&c);
            c.op = OP_CMPD; for (v = 0; v < 2 * NDIGS; v += 2) { c.v = v; chk(&c); }
            c.op = OP_RADIX; c.v = 0; chk(&c); c.v = 2; chk(&c);
        }
        c.s1 = 0; c.al = 0;
        c.op = OP_BITS; c.v = 0; chk(&c);
        c.op = OP_EXPORT; for (v = 0; v < 6; v += 2) { c.v = v; chk(&c); }
        c.op = OP_IMPORT; for (v = 0; v < 12; v += 2) { c.v = v; chk(&c); }
        c.op = OP_ASN; c.v = 0; chk(&c);
        c.op = OP_MSETUP; chk(&c);
    }
}

static void g_2expt(const grp_t *g)
{
    bc_t c;
    int b, top = 64 * (thorough ? 130 : 70);
    (void) g;
    memset(&c, 0, sizeof(c));
    c.op = OP_2EXPT;
    for (b = -2; b <= top && !G.stop; b++)
    {
        c.v = b; c.al = 0; chk(&c);
        c.al = 1; chk(&c);
    }
    c.al = 0;
    c.v = 64 * 191; chk(&c); c.v = 64 * 192 - 1; chk(&c); c.v = 64 * 192; chk(&c); c.v = 64 * 192 + 1; chk(&c); c.v = 32767; chk(&c);
}

static void g_mulmod(const grp_t *g)
{
    univ_t *u1 = get_univ(UK_R, g->d1), *u2 = get_univ(UK_R, g->d2), *um = get_univ(UK_M, g->d3);
    bc_t c;
    int i1, i2, i3;
    memset(&c, 0, sizeof(c));
    c.op = OP_MULMOD; c.d1 = g->d1; c.d2 = g->d2; c.d3 = g->d3;
    for (i3 = 0; i3 < um->n && !G.stop; i3++)
    {
        if (g->sub >= 0 && i3 != g->sub)
        {
            continue;
        }
        for (i1 = 0; i1 < u1->n; i1++)
        {
            for (i2 = 0; i2 < u2->n; i2++)
            {
                c.i1 = i1; c.i2 = i2; c.i3 = i3;
                c.al = 0; c.v = 0; chk(&c);
                c.al = 1; chk(&c);
                if (g->d1 < 16)
                {
                    c.al = 0; c.v = 1; chk(&c);
                    c.v = 0; c.al = 2; chk(&c);
                }
            }
        }
    }
}

static void g_invmod(const grp_t *g)
{
    univ_t *u1 = get_univ(UK_R, g->d1), *um = get_univ(UK_M, g->d3);
    bc_t c;
    int i1, i3;
    memset(&c, 0, sizeof(c));
    c.op = OP_INVMOD; c.d1 = g->d1; c.d3 = g->d3;
    for (i3 = 0; i3 < um->n && !G.stop; i3++)
    {
        for (i1 = 0; i1 < u1->n; i1++)
        {
            c.i1 = i1; c.i3 = i3;
            c.al = 0; c.v = 0; chk(&c);
            c.v = 1; chk(&c);
            c.v = 0; c.al = 1; chk(&c);
        }
    }
}

static void g_exptmod(const grp_t *g)
{
    /* sub = modulus index; bases from R(1), R(d3-1), R(d3), R(d3+1) */
    int gd[4], ng = 0, j, i1, x;
    bc_t c;
    memset(&c, 0, sizeof(c));
    c.op = OP_EXPTMOD; c.d3 = g->d3; c.i3 = g->sub / 4;
    gd[ng++] = 1;
    if (g->d3 > 2) gd[ng++] = g->d3 - 1;
    if (g->d3 > 1) gd[ng++] = g->d3;
    gd[ng++] = g->d3 + 1;
    for (j = 0; j < ng && !G.stop; j++)
    {
        univ_t *u1 = get_univ(UK_R, gd[j]);
        if (j != g->sub % 4)
        {
            continue;
        }
        c.d1 = gd[j];
        for (i1 = 0; i1 < u1->n; i1++)
        {
            for (x = 0; x < NEXPO; x++)
            {
                c.i1 = i1; c.i2 = x;
                c.al = 0; c.v = (i1 + x) & 1; chk(&c);
                if (x == 4 || x == 7 || x == 13)
                {
                    c.al = 1; c.v = 0; chk(&c);
                }
            }
        }
    }
}

static void g_mred(const grp_t *g)
{
    univ_t *u = get_univ(UK_R, g->d3), *um = get_univ(UK_M, g->d3);
    bc_t c;
    int i1, i2, i3, v;
    memset(&c, 0, sizeof(c));
    c.op = OP_MREDUCE; c.d1 = c.d2 = c.d3 = g->d3;
    for (i3 = 0; i3 < um->n && !G.stop; i3++)
    {
        for (i1 = 0; i1 < u->n; i1++)
        {
            for (i2 = i1; i2 < u->n; i2++)
            {
                for (v = 0; v < 6; v += 2)
                {
                    c.i1 = i1; c.i2 = i2; c.i3 = i3; c.v = v;
                    chk(&c);
                }
            }
        }
    }
    c.op = OP_MNORM;
    for (i3 = 0; i3 < um->n && !G.stop; i3++)
    {
        c.i1 = c.i2 = 0; c.i3 = i3;
        c.v = 0; chk(&c);
        c.v = 1; chk(&c);
    }
}

static void run_grp(const grp_t *g)
{
    memset(&G, 0, sizeof(G));
    switch (g->kind)
    {
    case GK_PAIR: g_pair(g); break;
    case GK_UNARY: g_unary(g); break;
    case GK_2EXPT: g_2expt(g); break;
    case GK_MULMOD: g_mulmod(g); break;
    case GK_INVMOD: g_invmod(g); break;
    case GK_EXPTMOD: g_exptmod(g); break;
    case GK_MRED: g_mred(g); break;
    }
}

static void grp_desc(const grp_t *g, char *out, size_t sz)
{
    snprintf(out, sz, "group;kind=%s;op=%s;d1=%d;d2=%d;d3=%d;sub=%d (%s %s digits %d/%d/%d #%d)", gkname[g->kind], g->kind == GK_PAIR ? opname[g->op] : "-",
        g->d1, g->d2, g->d3, g->sub, gkname[g->kind], g->kind == GK_PAIR ? opname[g->op] : "", g->d1, g->d2, g->d3, g->sub);
}

static int grp_parse(const char *s, grp_t *g)
{
    char kn[24], on[24];
    int i;
    memset(g, 0, sizeof(*g));
    if (sscanf(s, "group;kind=%23[^;];op=%23[^;];d1=%d;d2=%d;d3=%d;sub=%d", kn, on, &g->d1, &g->d2, &g->d3, &g->sub) != 6)
    {
        return -1;
    }
    g->kind = -1;
    for (i = 0; i < GK_N; i++)
    {
        if (!strcmp(kn, gkname[i])) g->kind = i;
    }
    for (i = 0; i < OP_N; i++)
    {
        if (!strcmp(on, opname[i])) g->op = i;
    }
    return g->kind < 0 ? -1 : 0;
}

static void grp_case(void *ctx, mx_result_t *r)
{
    const grp_t *g = ctx;
    char gd[200];
    int i;
    mx_result_t fr;
    run_grp(g);
    grp_desc(g, gd, sizeof(gd));
    if (G.nf == 0)
    {
        snprintf(r->outcome, sizeof(r->outcome), G.stop ? "deadline" : "empty");
        return;
    }
    for (i = 0; i < G.nf; i++)
    {
        opstat_t *f = &G.f[i];
        memset(&fr, 0, sizeof(fr));
        snprintf(fr.desc, sizeof(fr.desc), "%.180s [op=%s]", gd, f->name);
        snprintf(fr.outcome, sizeof(fr.outcome), "%s:%s", f->name, f->bad ? "MISMATCH" : (f->err_allowed == f->n && f->n) ? "all-error-returned" : f->err_allowed ? "exact+error-returned" : "exact");
        fr.transitions = (uint32_t) f->n;
        fr.nontrivial = f->n > f->err_allowed;
        fr.trace_hash = fnv1a(fr.desc, strlen(fr.desc), FNV0);
        if (f->err_allowed)
        {
            /* separate outcome class: an error code where the result is mathematically defined (allowed by the property, counted) */
            mx_result_t er = fr;
            snprintf(er.desc, sizeof(er.desc), "%.170s [op=%s errors]", gd, f->name);
            snprintf(er.outcome, sizeof(er.outcome), "%s:error-returned", f->name);
            er.transitions = (uint32_t) f->err_allowed;
            er.nontrivial = 0;
            mx_record(&er);
        }
        if (f->stale)
        {
            /* value exact, but digits above 'used' were left non-zero in the output operand (hygiene, not a violation) */
            mx_result_t er = fr;
            snprintf(er.desc, sizeof(er.desc), "%.170s [op=%s stale]", gd, f->name);
            snprintf(er.outcome, sizeof(er.outcome), "%s:exact-but-stale-high-digits", f->name);
            er.transitions = (uint32_t) f->stale;
            mx_record(&er);
        }
        if (i < G.nf - 1)
        {
            mx_record(&fr);
        }
    }
    *r = fr;
}

#define MAXG 20000
static grp_t groups[MAXG];
static long ng, order[MAXG];

static void add_grp(int kind, int op, int d1, int d2, int d3, int sub, double cost)
{
    if (ng >= MAXG)
    {
        fprintf(stderr, "drv_c13: group table full\n");
        exit(2);
    }
    groups[ng].kind = kind; groups[ng].op = op; groups[ng].d1 = d1; groups[ng].d2 = d2; groups[ng].d3 = d3; groups[ng].sub = sub;
    groups[ng].cost = cost;
    ng++;
}

static int cmp_cost(const void *a, const void *b)
{
    long ia = *(const long *) a, ib = *(const long *) b;
    if (groups[ia].cost != groups[ib].cost)
    {
        return groups[ia].cost < groups[ib].cost ? 1 : -1;
    }
    return ia < ib ? -1 : 1;
}

static const int DQ[] = { 1, 2, 3, 4, 7, 8, 9, 16, 17, 31, 32, 33 };
static const int DT[] = { 1, 2, 3, 4, 7, 8, 9, 16, 17, 31, 32, 33, 48, 64, 65, 96 };
static const int DM_Q[] = { 1, 2, 3, 4, 8, 9, 16, 17, 32, 33 };
static const int DM_T[] = { 1, 2, 3, 4, 8, 9, 16, 17, 32, 33, 48, 64, 65 };

static void build_groups(void)
{
    const int *dl = thorough ? DT : DQ, *dm = thorough ? DM_T : DM_Q;
    int nd = thorough ? 16 : 12, ndm = thorough ? 13 : 10, i, j, k;
    static const int pops[] = { OP_ADD, OP_SUB, OP_CMP, OP_MUL, OP_DIV, OP_MOD };
    for (i = 0; i < nd; i++)
    {
        for (j = 0; j < nd; j++)
        {
            double n1 = get_univ(UK_U, dl[i])->n, n2 = get_univ(UK_U, dl[j])->n;
            for (k = 0; k < 6; k++)
            {
                double per = 0.3 + (dl[i] + dl[j]) * 0.02;
                if (pops[k] == OP_MUL) per = 0.5 + dl[i] * dl[j] * 0.01;
                if (pops[k] == OP_DIV || pops[k] == OP_MOD) per = 1 + (dl[i] > dl[j] ? (double) (dl[i] - dl[j] + 1) * 64 * dl[i] * 0.02 : 0.5);
                {
                    int nsl = ((pops[k] == OP_DIV || pops[k] == OP_MOD) && dl[i] >= 16 && dl[i] > dl[j]) ? (dl[i] >= 48 ? 16 : 4) : 1, sl;
                    for (sl = 0; sl < nsl; sl++)
                    {
                        add_grp(GK_PAIR, pops[k], dl[i], dl[j], nsl, sl, n1 * n2 * per / nsl);
                    }
                }
            }
        }
        add_grp(GK_UNARY, 0, dl[i], 0, 0, 0, get_univ(UK_U, dl[i])->n * 200.0 * (1 + dl[i] * dl[i] * 0.02));
    }
    add_grp(GK_2EXPT, 0, 0, 0, 0, 0, 5000);
    for (i = 0; i < ndm; i++)
    {
        int d = dm[i], mds[3], nm = 0;
        mds[nm++] = 1;
        if (d > 1) mds[nm++] = d;
        if (d > 2) mds[nm++] = d - 1;
        for (j = 0; j < nm; j++)
        {
            if (d >= 16)
            {
                int q;
                for (q = 0; q < get_univ(UK_M, mds[j])->n; q++)
                {
                    add_grp(GK_MULMOD, 0, d, d, mds[j], q, 150.0 * d * d * (d - mds[j] + 2));
                }
            }
            else
            {
                add_grp(GK_MULMOD, 0, d, d, mds[j], -1, 2000.0 * d * d * (d - mds[j] + 2));
            }
            if (d > 1)
            {
                add_grp(GK_MULMOD, 0, d, 1, mds[j], -1, 500.0 * d * (d + 2));
            }
        }
        for (j = 0; j < ndm; j++)
        {
            add_grp(GK_INVMOD, 0, d, 0, dm[j], 0, 60.0 * (d + dm[j]) * (d + dm[j]) * 8);
        }
        add_grp(GK_MRED, 0, 0, 0, d, 0, 3000.0 * d * d);
    }
    {
        /* pstm_exptmod: supported moduli have 8,16,24,32,48,64 digits; 9 and 33 digits and even/short moduli must be refused */
        static const int pq[] = { 8, 9, 16, 32, 33 }, pt[] = { 8, 9, 16, 24, 32, 33, 48, 64 };
        const int *pl = thorough ? pt : pq;
        int np = thorough ? 8 : 5;
        for (i = 0; i < np; i++)
        {
            univ_t *um = get_univ(UK_M, pl[i]);
            for (j = 0; j < um->n * 4; j++)
            {
                add_grp(GK_EXPTMOD, 0, 0, 0, pl[i], j, 8.0 * pl[i] * pl[i] * pl[i] + 1000);
            }
        }
    }
}

#define NSLOT 256
static slot13_t *slots;
static volatile int *slot_next;

static void run_group(long gi, void *unused)
{
    const grp_t *g = &groups[order[gi]];
    char desc[240];
    double t0 = now_s();
    (void) unused;
    if (!g_slot)
    {
        g_slot = &slots[__atomic_fetch_add(slot_next, 1, __ATOMIC_SEQ_CST) % NSLOT];
    }
    g_slot->active = 0;
    grp_desc(g, desc, sizeof(desc));
    mx_fork_case(desc, grp_case, (void *) g);
    if (getenv("C13_TIMING") && now_s() - t0 > atof(getenv("C13_TIMING")))
    {
        fprintf(stderr, "slow group %.1fs (est %.0f): %s\n", now_s() - t0, g->cost, desc);
    }
    if (g_slot->active)
    {
        mx_result_t r;
        bc_t c = g_slot->c;
        memset(&r, 0, sizeof(r));
        case_desc(&c, r.desc, sizeof(r.desc), "child died or hung inside this case");
        r.violation = 1;
        r.nontrivial = 1;
        snprintf(r.key, sizeof(r.key), "crash|%s|d1=%d|d2=%d|d3=%d", opname[c.op], c.d1, c.d2, c.d3);
        snprintf(r.what, sizeof(r.what), "process crashed or hung inside the library while running %s", r.desc);
        snprintf(r.outcome, sizeof(r.outcome), "CRASH-in-case");
        mx_record(&r);
        g_slot->active = 0;
    }
}

int main(int argc, char **argv)
{
    mx_cfg_t cfg;
    const char *replay;
    long i;
    static char extra[256];

    memset(&cfg, 0, sizeof(cfg));
    cfg.property = "C13";
    cfg.level = "exploration";
    cfg.sanitizer_is_oracle = 1;
    cfg.engine = "bounded-exhaustive differential enumeration of pstm_* against OpenSSL BN (exact integer arithmetic)";
    cfg.rule =
        "case = one (group, operation) bundle; transitions = individual operation executions whose result (digits, used count, sign, return code) is compared "
        "with OpenSSL BN. Operand universe U(d), d 64-bit digits: {0,1,2,3 (d=1), B^d-1, B^d-2, B^(d-1), B^(d-1)+-1, 2^(64d-1), 2^(64d-1)+-1, 0xAA.. and 0x55.. "
        "digits, top digit only, top digit 1 + bottom digit all-ones, one zero digit inside all-ones at every digit boundary, 2^k and 2^k+-1 for k=64j and 64j-1 "
        "at every digit boundary j (all j for d<=17, j in {1,2,3,7,8,9,15,16,17,31,32,33,47,48,49,63,64,65,d/2,d-3,d-2,d-1} above), 2 seed-perturbed values}; "
        "d in {1,2,3,4,7,8,9,16,17,31,32,33} quick, plus {48,64,65,96} thorough (PSTM_MAX_SIZE=192 digits, products up to 192). "
        "ALL pairs U(d1)xU(d2) for add/sub (4 sign combinations x out fresh-small/fresh-with-stale-data/out=a/out=b), cmp+cmp_mag (4 signs), mul_comba (paD none/"
        "adequate/too small, out=a, out=b, signs), div (quotient+remainder with fresh outputs and with quotient=a,remainder=b for every pair; for max(d1,d2)<=17 also "
        "stale-data outputs and quotient=b,remainder=a; for <=9 also quotient-only, remainder-only and all 4 sign combinations), mod (a>=0 and a<0; out=a; out=b for "
        "d<=17); a=b same object and out=a=b for d1=d2. All x in U(d), both signs: sqr_comba (out=x, paD variants), mul_2, div_2, mul_d/add_d/"
        "sub_d (digits 0,1,2,B-1,2^63), lshd, rshd, div_2d (shifts 0,1,7,8,63,64,65,127,128,64d-1,64d,64d+1,-1; with/without remainder; out=x), copy, init_copy, abs, "
        "cmp_d, count_bits, unsigned_bin_size, to_unsigned_bin(+_nr,+_alloc), read_unsigned_bin (0/1/9 leading zero bytes; both init functions), read_asn, read_radix(16), "
        "montgomery_setup; 2expt for every exponent -2..64*70 (130 thorough) and the PSTM_MAX_SIZE boundary. Triples from the reduced universe R(d) (17 structural "
        "values) with moduli M(d) = {2^k-1, 2^k-3, 2^(k-1)+1, seeded odd, 0xAA..AB, B^(d-1)+1, 0x55.., top+bottom; even: 2^k-2, 2^(k-1), 0xAA.., top digit only, "
        "B^(d-1); d=1: 1,2,3,5}: mulmod (d x d and d x 1, modulus of 1, d-1, d digits, out=a; out=b and stale outputs for d<16), invmod (R(d1) x M(d2) all d1,d2; out=a), montgomery_reduce "
        "(x*y for x<=y<m in R(d), odd m, paD variants; INNERMUL8 and tail loops via d=8,9,16,17,32,33) + calc_normalization, exptmod (g in R(1),R(p-1),R(p),R(p+1); "
        "x in {0,1,2,3,65537,B-1,B,P-1,P-2,(P-1)/2,0x55..,P,P+1,seeded}; P in M(8,9,16,32,33) quick +M(24,48,64) thorough; Y=G alias). "
        "Comba selectors hit: pstm_mul_comba16 (16x16), pstm_mul_comba32 (32x32), pstm_mul_comba_gen (all other pairs incl. 16x17, 17x16, 32x33, 16x32), "
        "pstm_sqr_comba16 (16), pstm_sqr_comba32 (32), pstm_sqr_comba_gen (others). "
        "Violation keys are op|signs|alias|kind (operand classes and digit counts are in the descriptor). "
        "Oracle: value and sign equal to the exact result, result clamped, no negative zero (stale non-zero digits above 'used' are only counted, outcome "
        "exact-but-stale-high-digits); invmod must return the residue in [0,m) for a<m (kind unreduced-result otherwise); an error code is accepted (outcome class "
        "error-returned, not non-trivial) for: division/reduction by zero, invmod without inverse or hitting the 4096-iteration bound, even or wrongly sized exptmod "
        "modulus, exponent 0 or >= P (documented restrictions), 2expt beyond 128 digits; an error for add/sub/mul/sqr/div/mod/shift/import/export with all operands <= 64 digits (4096 bits, the largest "
        "supported key size) is a violation (unexpected-error); with 65- or 96-digit operands it is counted as error-returned. Not checked (don't care): negative modulus, modulus 1 for invmod/Montgomery, even moduli for the Montgomery helpers, negative operands of the "
        "modular operations; invmod of a>=m may return any representative congruent to the inverse. non-trivial = the bundle compared at least one successful MatrixSSL result with BN.";
    cfg.assumptions[0] = "OpenSSL BN implements exact integer arithmetic";
    cfg.assumptions[1] = "operands are built directly in pstm_int (digits, used, sign) so that import is tested independently of the other operations";
    cfg.assumptions[2] = "plain (non-sanitizer) build: out-of-bounds accesses that do not change a result are not observed here";
    replay = mx_parse_args(argc, argv, &cfg);
    thorough = !strcmp(cfg.tier, "thorough");
    cfg.bound = thorough ? "all groups: digit counts {1,2,3,4,7,8,9,16,17,31,32,33,48,64,65,96}, all pairs" : "all groups: digit counts {1,2,3,4,7,8,9,16,17,31,32,33}, all pairs";
    g_seed13 = cfg.seed;
    bnctx = BN_CTX_new();
    if (world_open() < 0)
    {
        fprintf(stderr, "matrixSslOpen failed\n");
        return 2;
    }

    if (replay)
    {
        mx_result_t r;
        memset(&r, 0, sizeof(r));
        snprintf(r.desc, sizeof(r.desc), "%s", replay);
        if (!strncmp(replay, "group;", 6))
        {
            grp_t g;
            long bad = 0, n = 0;
            int j;
            if (grp_parse(replay, &g) < 0)
            {
                fprintf(stderr, "bad group descriptor: %s\n", replay);
                return 2;
            }
            g_replay_mode = 1;
            run_grp(&g);
            for (j = 0; j < G.nf; j++)
            {
                fprintf(stderr, "  %-12s executed=%ld error-returned=%ld n/a=%ld violations=%ld\n", G.f[j].name, G.f[j].n, G.f[j].err_allowed, G.f[j].na, G.f[j].bad);
                bad += G.f[j].bad; n += G.f[j].n;
            }
            r.violation = bad ? 1 : 0;
            r.transitions = (uint32_t) n;
            snprintf(r.key, sizeof(r.key), "%s", bad ? "group-mismatch" : "");
            snprintf(r.outcome, sizeof(r.outcome), "group:%s", bad ? "MISMATCH" : "exact");
            snprintf(r.what, sizeof(r.what), "%ld executions, %ld violations", n, bad);
        }
        else
        {
            bc_t c;
            char human[200] = "", what[320] = "";
            int rc;
            memset(&c, 0, sizeof(c));
            if (case_parse(replay, &c) < 0)
            {
                fprintf(stderr, "bad descriptor: %s\n", replay);
                return 2;
            }
            g_verbose13 = 1;
            fprintf(stderr, "replaying %s\n", replay);
            rc = run_case(&c, human, what);
            fprintf(stderr, "  case: %s\n  result: %s%s%s\n", human, retname[rc], what[0] ? " - " : "", what);
            if (rc == RET_WRONG || rc == RET_REPR || rc == RET_ERR_UNEXPECTED || rc == RET_UNREDUCED)
            {
                r.violation = 1;
                snprintf(r.key, sizeof(r.key), "%s|%s|%s", opname[c.op], g_cls, retname[rc]);
                snprintf(r.what, sizeof(r.what), "%s", what);
            }
            snprintf(r.outcome, sizeof(r.outcome), "%s:%s", opname[c.op], retname[rc]);
            r.transitions = 1;
            r.trace_hash = fnv1a(what, strlen(what), FNV0);
        }
        mx_replay_print(&r);
        return 0;
    }

    mx_init(&cfg);
    mx_case_timeout_s = thorough ? 500 : 100;
    mx_note_skipped("pstm_div PSTM_LARGE_DIV variant, 32/16/8-bit digit builds, ARM/MIPS/x86-32 comba assembly: not this build configuration (PSTM_64BIT, PSTM_X86_64)");
    mx_note_skipped("USE_LARGE_DH_GROUPS (6144/8192-bit moduli): not enabled in crypto/cryptoConfig.h");
    slots = mmap(NULL, sizeof(slot13_t) * NSLOT + 64, PROT_READ | PROT_WRITE, MAP_SHARED | MAP_ANONYMOUS, -1, 0);
    if (slots == MAP_FAILED)
    {
        perror("mmap");
        return 2;
    }
    slot_next = (volatile int *) (slots + NSLOT);
    build_groups();
    for (i = 0; i < ng; i++)
    {
        order[i] = i;
    }
    qsort(order, (size_t) ng, sizeof(order[0]), cmp_cost);
    {
        long tot = 0;
        int k;
        const int *dl = thorough ? DT : DQ;
        for (k = 0; k < (thorough ? 16 : 12); k++)
        {
            tot += get_univ(UK_U, dl[k])->n;
        }
        fprintf(stderr, "[C13 %s] %ld groups, sum |U(d)| = %ld, |R(33)| = %d, |M(33)| = %d\n", cfg.tier, ng, tot, get_univ(UK_R, 33)->n, get_univ(UK_M, 33)->n);
        snprintf(extra, sizeof(extra), "\"groups\": %ld, \"universe_elements\": %ld", ng, tot);
    }
    mx_parallel(ng, run_group, NULL);
    return mx_finish(extra);
}
