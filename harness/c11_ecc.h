/* c11_ecc.h - ECDSA, EC public point and Ed25519 cases of drv_c11.c */
#ifndef C11_ECC_H
#define C11_ECC_H
#include "c11_common.h"

/* ------------------------------------------------------------------ ECDSA */
enum { D_STRICT = 0, D_TRAIL_AFTER, D_TRAIL_IN_SEQ, D_SEQ_SHORT, D_SEQ_LONG, D_SEQ_LONGFORM, D_INT_LONGFORM, D_R_ZEROPAD, D_S_ZEROPAD,
       D_R_NEG, D_S_NEG, D_INT_OVERSIZE, D_INT_HUGE, D_SEQ_INDEF, D_BAD_SEQ_TAG, D_BAD_INT_TAG, D_R_EMPTY, D_ONLY_R, D_THREE_INTS,
       D_RAW_RS, D_EMPTY, D_SEQ_ONLY, D_R_MANY_ZEROS, D_INT_LEN0_LONGFORM, D_S_LEN_BEYOND, D_NDER };
static const char *ecdsa_der_named[D_NDER] = {
    "der-strict", "der-trailing-after", "der-trailing-in-seq", "der-seq-len-short", "der-seq-len-long", "der-seq-longform",
    "der-int-longform", "der-r-zero-padded", "der-s-zero-padded", "der-r-negative", "der-s-negative", "der-int-len-oversize",
    "der-int-len-huge", "der-seq-indefinite", "der-wrong-seq-tag", "der-wrong-int-tag", "der-r-empty", "der-only-r", "der-three-ints",
    "raw-r-s", "empty", "der-seq-only", "der-r-many-zeros", "der-int-len0-longform", "der-s-len-beyond-end" };

#define NGR 9
#define NGS 10
static const char *grid_r_name[NGR] = { "0", "1", "n-1", "n", "n+1", "r+n", "p", "2^bits", "r" };
static const char *grid_s_name[NGS] = { "0", "1", "n-1", "n", "n+1", "s+n", "p", "2^bits", "s", "n-s" };

typedef struct {
    unsigned char msg[128]; int msglen;
    unsigned char dig[64]; int dlen;
    unsigned char sig[700]; int siglen;
    const char *name;
    char human[140];
    int otherkey;
} etest_t;

static void grid_value(eckey_t *E, int idx, int is_s, const BIGNUM *valid, BIGNUM *out)
{
    switch (idx)
    {
    case 0: BN_zero(out); break;
    case 1: BN_one(out); break;
    case 2: BN_copy(out, E->n); BN_sub_word(out, 1); break;
    case 3: BN_copy(out, E->n); break;
    case 4: BN_copy(out, E->n); BN_add_word(out, 1); break;
    case 5: BN_add(out, valid, E->n); break;
    case 6: BN_copy(out, E->p); break;
    case 7: BN_one(out); BN_lshift(out, out, E->size * 8); break;
    case 8: BN_copy(out, valid); break;
    case 9: BN_sub(out, E->n, valid); break;
    }
    (void) is_s;
}

/* valid signature with both r and s having their top bit set if wanted (for "negative" shapes) */
static int ec_valid_sig(eckey_t *E, const unsigned char *dig, int dlen, int want_high, BIGNUM *r, BIGNUM *s)
{
    BIGNUM *k = BN_new();
    long ctr;
    int ok = 0;
    for (ctr = 0; ctr < 400 && !ok; ctr++)
    {
        ec_scalar(E, k, want_high ? "ecdsa-nonce-high" : "ecdsa-nonce", ctr);
        if (!ec_sign_k(E, dig, dlen, k, r, s))
        {
            continue;
        }
        if (want_high && !(BN_num_bits(r) == E->size * 8 && BN_num_bits(s) == E->size * 8))
        {
            continue;
        }
        ok = 1;
    }
    BN_free(k);
    return ok;
}

static int ecdsa_der_shape(eckey_t *E, int name, const unsigned char *dig, int dlen, etest_t *t)
{
    BIGNUM *r = BN_new(), *s = BN_new();
    unsigned char rb[200], sb[200], body[600], *o = t->sig;
    int rl, sl, bl = 0, n = 0, rc = 0, high = (name == D_R_NEG || name == D_S_NEG);
    if (!ec_valid_sig(E, dig, dlen, high, r, s))
    {
        BN_free(r); BN_free(s);
        return high ? NA : -1; /* P-521: top byte is 0x01, a "negative" shape does not exist */
    }
    rl = bn_int_content(r, rb);
    sl = bn_int_content(s, sb);
    switch (name)
    {
    case D_STRICT:
        n = der_ecdsa_strict(r, s, o); break;
    case D_TRAIL_AFTER:
        n = der_ecdsa_strict(r, s, o); o[n++] = 0x00; break;
    case D_TRAIL_IN_SEQ:
        bl += der_tlv(body + bl, 2, rb, rl, 0); bl += der_tlv(body + bl, 2, sb, sl, 0);
        body[bl++] = 0x05; body[bl++] = 0x00;
        n = der_tlv(o, 0x30, body, bl, 0); break;
    case D_SEQ_SHORT: case D_SEQ_LONG:
        n = der_ecdsa_strict(r, s, o);
        if (o[1] & 0x80) o[2] = (unsigned char) (o[2] + (name == D_SEQ_LONG ? 1 : -1));
        else o[1] = (unsigned char) (o[1] + (name == D_SEQ_LONG ? 1 : -1));
        break;
    case D_SEQ_LONGFORM:
        bl += der_tlv(body + bl, 2, rb, rl, 0); bl += der_tlv(body + bl, 2, sb, sl, 0);
        n = der_tlv(o, 0x30, body, bl, bl < 128 ? 1 : 2); break;
    case D_INT_LONGFORM:
        bl += der_tlv(body + bl, 2, rb, rl, 1); bl += der_tlv(body + bl, 2, sb, sl, 1);
        n = der_tlv(o, 0x30, body, bl, 0); break;
    case D_R_ZEROPAD: case D_S_ZEROPAD:
    {
        unsigned char *w = name == D_R_ZEROPAD ? rb : sb; int *wl = name == D_R_ZEROPAD ? &rl : &sl;
        memmove(w + 1, w, (size_t) *wl); w[0] = 0; (*wl)++;
        bl += der_tlv(body + bl, 2, rb, rl, 0); bl += der_tlv(body + bl, 2, sb, sl, 0);
        n = der_tlv(o, 0x30, body, bl, 0); break;
    }
    case D_R_NEG: case D_S_NEG:
    {
        /* drop the 00 that keeps the INTEGER positive: DER now denotes a negative number */
        unsigned char *w = name == D_R_NEG ? rb : sb; int *wl = name == D_R_NEG ? &rl : &sl;
        if (w[0] != 0) { rc = NA; break; }
        memmove(w, w + 1, (size_t) (*wl - 1)); (*wl)--;
        bl += der_tlv(body + bl, 2, rb, rl, 0); bl += der_tlv(body + bl, 2, sb, sl, 0);
        n = der_tlv(o, 0x30, body, bl, 0); break;
    }
    case D_INT_OVERSIZE:
        /* r's length octet claims 0x7f bytes; the buffer ends long before */
        n = der_ecdsa_strict(r, s, o);
        o[(o[1] & 0x80) ? 4 : 3] = 0x7f; break;
    case D_INT_HUGE:
        bl = 0; body[bl++] = 2; body[bl++] = 0x84; body[bl++] = 0xff; body[bl++] = 0xff; body[bl++] = 0xff; body[bl++] = 0xff;
        memcpy(body + bl, rb, (size_t) rl); bl += rl;
        bl += der_tlv(body + bl, 2, sb, sl, 0);
        n = der_tlv(o, 0x30, body, bl, 0); break;
    case D_SEQ_INDEF:
        bl += der_tlv(body + bl, 2, rb, rl, 0); bl += der_tlv(body + bl, 2, sb, sl, 0);
        o[0] = 0x30; o[1] = 0x80; memcpy(o + 2, body, (size_t) bl); n = 2 + bl; o[n++] = 0; o[n++] = 0; break;
    case D_BAD_SEQ_TAG:
        n = der_ecdsa_strict(r, s, o); o[0] = 0x31; break;
    case D_BAD_INT_TAG:
        bl += der_tlv(body + bl, 3, rb, rl, 0); bl += der_tlv(body + bl, 2, sb, sl, 0);
        n = der_tlv(o, 0x30, body, bl, 0); break;
    case D_R_EMPTY:
        bl += der_tlv(body + bl, 2, rb, 0, 0); bl += der_tlv(body + bl, 2, sb, sl, 0);
        n = der_tlv(o, 0x30, body, bl, 0); break;
    case D_ONLY_R:
        bl += der_tlv(body + bl, 2, rb, rl, 0);
        n = der_tlv(o, 0x30, body, bl, 0); break;
    case D_THREE_INTS:
        bl += der_tlv(body + bl, 2, rb, rl, 0); bl += der_tlv(body + bl, 2, sb, sl, 0); bl += der_tlv(body + bl, 2, sb, sl, 0);
        n = der_tlv(o, 0x30, body, bl, 0); break;
    case D_RAW_RS:
        BN_bn2binpad(r, o, E->size); BN_bn2binpad(s, o + E->size, E->size); n = 2 * E->size; break;
    case D_EMPTY:
        n = 0; break;
    case D_SEQ_ONLY:
        o[0] = 0x30; o[1] = 0; n = 2; break;
    case D_R_MANY_ZEROS:
        memmove(rb + 40, rb, (size_t) rl); memset(rb, 0, 40); rl += 40;
        bl += der_tlv(body + bl, 2, rb, rl, 0); bl += der_tlv(body + bl, 2, sb, sl, 0);
        n = der_tlv(o, 0x30, body, bl, 0); break;
    case D_INT_LEN0_LONGFORM:
        body[bl++] = 2; body[bl++] = 0x81; body[bl++] = 0;
        bl += der_tlv(body + bl, 2, sb, sl, 0);
        n = der_tlv(o, 0x30, body, bl, 0); break;
    case D_S_LEN_BEYOND:
        /* s claims one byte more than the signature holds (sequence length adjusted to match the claim) */
        bl += der_tlv(body + bl, 2, rb, rl, 0);
        body[bl++] = 2; body[bl++] = (unsigned char) (sl + 1); memcpy(body + bl, sb, (size_t) sl); bl += sl;
        n = der_hdr(o, 0x30, bl + 1, 0); memcpy(o + n, body, (size_t) bl); n += bl; break;
    default:
        rc = NA;
    }
    t->siglen = n;
    BN_free(r); BN_free(s);
    return rc;
}

static int ecdsa_build(eckey_t *E, int h, int v, long i, etest_t *t)
{
    BIGNUM *r = BN_new(), *s = BN_new(), *r2 = BN_new(), *s2 = BN_new();
    int rc = 0;
    memset(t, 0, sizeof(*t));
    t->msglen = std_msg(t->msg, "ecdsa", E->bits, h, 0);
    t->dlen = HI[h].len;
    ref_hash(h, t->msg, (size_t) t->msglen, t->dig);
    if (!ec_valid_sig(E, t->dig, t->dlen, 0, r, s))
    {
        rc = -1;
        goto out;
    }
    switch (v)
    {
    case V_GRID:
    {
        int ri = (int) (i / 16), si = (int) (i % 16);
        if (ri < 0 || ri >= NGR || si >= NGS) { rc = NA; break; }
        grid_value(E, ri, 0, r, r2);
        grid_value(E, si, 1, s, s2);
        t->siglen = der_ecdsa_strict(r2, s2, t->sig);
        t->name = (ri == 8 && si >= 8) ? "rs-valid" : "rs-grid";
        snprintf(t->human, sizeof(t->human), "(r,s) := (%s, %s), strict DER", grid_r_name[ri], grid_s_name[si]);
        break;
    }
    case V_DER:
        if (i < 0 || i >= D_NDER) { rc = NA; break; }
        t->name = ecdsa_der_named[i];
        snprintf(t->human, sizeof(t->human), "valid (r,s) in shape %s", t->name);
        rc = ecdsa_der_shape(E, (int) i, t->dig, t->dlen, t);
        break;
    case V_MSG:
        if (i < 0 || i >= t->dlen) { rc = NA; break; }
        t->siglen = der_ecdsa_strict(r, s, t->sig);
        t->dig[i] ^= 0x01;
        t->name = "digest-byte-flipped";
        snprintf(t->human, sizeof(t->human), "valid signature, digest[%ld] ^= 01 (digest %d bytes, curve %d bytes)", i, t->dlen, E->size);
        break;
    case V_NAMED:
        if (i == 1 || i == 2)
        {
            /* a GENUINE signature over a digest that is 0 mod n: all zero, or (digest length = curve size) n itself */
            if (i == 1) memset(t->dig, 0, (size_t) t->dlen);
            else
            {
                if (t->dlen != E->size) { rc = NA; break; }
                BN_bn2binpad(E->n, t->dig, t->dlen);
            }
            if (!ec_valid_sig(E, t->dig, t->dlen, 0, r, s)) { rc = -1; break; }
            t->siglen = der_ecdsa_strict(r, s, t->sig);
            t->name = i == 1 ? "digest-all-zero" : "digest-equals-group-order";
            snprintf(t->human, sizeof(t->human), "genuine signature over the digest %s", i == 1 ? "00..00" : "n (the group order)");
            break;
        }
        if (i != 0) { rc = NA; break; }
        t->siglen = der_ecdsa_strict(r, s, t->sig);
        t->otherkey = 1;
        t->name = "other-public-key";
        snprintf(t->human, sizeof(t->human), "valid signature verified under public key Q+G");
        break;
    case V_TRUNC:
        t->siglen = der_ecdsa_strict(r, s, t->sig);
        if (i < 0 || i >= t->siglen) { rc = NA; break; }
        snprintf(t->human, sizeof(t->human), "valid signature truncated to %ld of %d bytes", i, t->siglen);
        t->siglen = (int) i;
        t->name = "sig-truncated";
        break;
    default:
        rc = NA;
    }
out:
    BN_free(r); BN_free(s); BN_free(r2); BN_free(s2);
    return rc;
}

static const char *apiec_name[2] = { "psEccDsaVerify", "psVerifySig" };

static int mx_ecdsa(psPubKey_t *pk, int h, int api, const etest_t *t, int *rcout)
{
    unsigned char *hs = hdup(t->sig, (size_t) t->siglen), *hd = hdup(t->dig, (size_t) t->dlen);
    int32_t rc, status = 0;
    int acc;
    if (api == 0)
    {
        rc = psEccDsaVerify(NULL, &pk->key.ecc, hd, (psSize_t) t->dlen, hs, (psSize_t) t->siglen, &status, NULL);
        acc = (rc >= 0 && status == 1) ? 1 : (status == 1) ? 2 : 0;
    }
    else
    {
        psBool_t res = PS_FALSE;
        rc = psVerifySig(NULL, hd, (psSizeL_t) t->dlen, hs, (psSize_t) t->siglen, pk, HI[h].ecdsa_oid, &res, NULL);
        acc = (rc == PS_SUCCESS && res == PS_TRUE) ? 1 : (rc == PS_SUCCESS || res == PS_TRUE) ? 2 : 0;
    }
    free(hs); free(hd);
    *rcout = rc;
    return acc;
}

static int run_ecdsa(const case_t *c, mx_result_t *r)
{
    eckey_t *E = ec_get(c->k);
    static etest_t t;
    int h = c->h, rc, api, parsed, valid_num = 0, strict = 0, nacc = 0, nrej = 0;
    BIGNUM *ru, *su;
    char md[96];
    uint64_t th;
    psPubKey_t other, *pk;
    EC_KEY *refkey;
    unsigned char strictbuf[300];

    if (!E || h < 0 || h >= H_RAW36 || !HI[h].enabled)
    {
        return NA;
    }
    rc = ecdsa_build(E, h, c->v, c->i, &t);
    if (rc == NA)
    {
        return NA;
    }
    case_mdesc(c, md, sizeof(md));
    snprintf(r->desc, sizeof(r->desc), "%s (ECDSA P-%d %s: %s)", md, E->bits, hash_name[h], t.human);
    if (rc < 0)
    {
        internal_err(r, "ecdsa-sign", "reference ECDSA signing failed (%s)", r->desc);
        return 0;
    }
    pk = &E->mx;
    refkey = E->ec;
    if (t.otherkey)
    {
        EC_POINT *Q = EC_POINT_new(E->grp);
        unsigned char pt[140];
        size_t pl;
        EC_POINT_add(E->grp, Q, EC_KEY_get0_public_key(E->ec), EC_GROUP_get0_generator(E->grp), E->bn);
        pl = EC_POINT_point2oct(E->grp, Q, POINT_CONVERSION_UNCOMPRESSED, pt, sizeof(pt), E->bn);
        memset(&other, 0, sizeof(other));
        if (psEccX963ImportKey(NULL, pt, (psSize_t) pl, &other.key.ecc, E->curve) < 0)
        {
            EC_POINT_free(Q);
            internal_err(r, "ecdsa-otherkey", "cannot import Q+G");
            return 0;
        }
        other.type = PS_ECC;
        other.keysize = psEccSize(&other.key.ecc);
        pk = &other;
        refkey = EC_KEY_new();
        EC_KEY_set_group(refkey, E->grp);
        EC_KEY_set_public_key(refkey, Q);
        EC_POINT_free(Q);
    }
    ru = BN_new(); su = BN_new();
    parsed = lenient_ecdsa(t.sig, (size_t) t.siglen, ru, su) == 0;
    if (parsed)
    {
        valid_num = ref_ecdsa_verify(E, refkey, t.dig, t.dlen, ru, su);
        strict = der_ecdsa_strict(ru, su, strictbuf) == t.siglen && memcmp(strictbuf, t.sig, (size_t) t.siglen) == 0;
    }
    DUMPF("case %s\n", r->desc);
    dumphex("message", t.msg, (size_t) t.msglen);
    dumphex("digest", t.dig, (size_t) t.dlen);
    dumphex("signature", t.sig, (size_t) t.siglen);
    if (g_dump && parsed)
    {
        char *a = BN_bn2hex(ru), *b = BN_bn2hex(su), *nn = BN_bn2hex(E->n);
        fprintf(stderr, "  r (unsigned) = %s\n  s (unsigned) = %s\n  n            = %s\n", a, b, nn);
        OPENSSL_free(a); OPENSSL_free(b); OPENSSL_free(nn);
    }
    DUMPF("  tolerant parse=%s  (r,s) mathematically valid (OpenSSL ECDSA_do_verify)=%d  strict DER=%d\n", parsed ? "ok" : "fails", valid_num, strict);

    /* consistency of the harness: by construction these must be valid / invalid */
    if ((c->v == V_DER && c->i == D_STRICT && !(valid_num && strict)) ||
        (c->v == V_GRID && c->i / 16 == 8 && c->i % 16 >= 8 && !(valid_num && strict)) ||
        (c->v == V_GRID && !(c->i / 16 == 8 && c->i % 16 >= 8) && valid_num) || (t.otherkey && valid_num))
    {
        internal_err(r, "ecdsa-oracle-mismatch", "reference verdict %d contradicts the construction of %s", valid_num, r->desc);
        goto done;
    }
    th = fnv1a(md, strlen(md), FNV0);
    for (api = 0; api < 2; api++)
    {
        int mrc, acc = mx_ecdsa(pk, h, api, &t, &mrc);
        char key[160];
        DUMPF("  MatrixSSL %-28s rc=%d -> %s\n", apiec_name[api], mrc, acc == 1 ? "ACCEPT" : acc == 2 ? "INCONSISTENT" : "reject");
        th = fnv1a(&acc, sizeof(acc), th);
        if (acc == 2)
        {
            snprintf(key, sizeof(key), "ecdsa|p%d|%s|%s|%s|inconsistent-result", E->bits, hash_name[h], t.name, apiec_name[api]);
            violate(r, key, "%s returned rc=%d with a contradicting status", apiec_name[api], mrc);
            acc = 1;
        }
        if (acc) nacc++; else nrej++;
        if (acc && !valid_num)
        {
            snprintf(key, sizeof(key), "ecdsa|p%d|%s|%s|%s|%s", E->bits, hash_name[h], t.name, apiec_name[api],
                parsed ? "accepted-invalid-rs" : "accepted-unparseable");
            violate(r, key, "%s ACCEPTED an ECDSA P-%d %s signature that is not valid (%s; OpenSSL ECDSA_do_verify on the numeric (r,s) rejects)",
                apiec_name[api], E->bits, hash_name[h], t.human);
        }
        else if (!acc && valid_num && strict)
        {
            snprintf(key, sizeof(key), "ecdsa|p%d|%s|%s|%s|rejected-valid", E->bits, hash_name[h], t.name, apiec_name[api]);
            violate(r, key, "%s rejected (rc=%d) a valid strictly DER encoded ECDSA P-%d %s signature (%s)", apiec_name[api], mrc, E->bits, hash_name[h], t.human);
        }
    }
    snprintf(r->outcome, sizeof(r->outcome), "ecdsa/%s/%s%s", var_name[c->v], (valid_num && !strict) ? "dontcare-" : "",
        nacc && nrej ? "mixed" : nacc ? "accept" : "reject");
    r->nontrivial = 1;
    r->transitions = 2;
    r->trace_hash = th;
done:
    BN_free(ru); BN_free(su);
    if (t.otherkey)
    {
        psEccClearKey(&other.key.ecc);
        EC_KEY_free(refkey);
    }
    return 0;
}

/* -------------------------------------------------------------- EC points */
enum { Q_VALID = 0, Q_NEG, Q_INF_1BYTE, Q_INF_FULL, Q_ZERO_ZERO, Q_Y_PLUS1, Q_Y_MINUS1, Q_X_PLUS1, Q_X_EQ_P, Q_Y_EQ_P, Q_P_P,
       Q_X_PLUS_P, Q_Y_PLUS_P, Q_TWIST, Q_ONE_ONE, Q_X_ZERO, Q_SHORT2, Q_LONG_ZEROS, Q_LONG_GARBAGE, Q_FMT02, Q_FMT03, Q_FMT02_FULL,
       Q_FMT06, Q_FMT07, Q_FMT05, Q_FMT00_XY, Q_FMTFF, Q_OTHER_CURVE, Q_G, Q_EVEN_LEN, Q_X_ONLY_04, Q_SMALL_X, Q_NPT };
static const char *point_named[Q_NPT] = {
    "valid", "valid-negated", "infinity-1byte", "infinity-00-padded", "zero-zero", "y-plus-1", "y-minus-1", "x-plus-1", "x-eq-p", "y-eq-p",
    "p-p", "x-plus-p", "y-plus-p", "twist-point", "one-one", "x-zero", "short-by-2", "leading-zero-coords", "trailing-garbage",
    "fmt-02-compressed", "fmt-03-compressed", "fmt-02-full-length", "fmt-06-hybrid", "fmt-07-hybrid", "fmt-05", "fmt-00-valid-xy", "fmt-ff",
    "other-curve-generator", "generator", "even-length", "fmt-04-x-only", "small-x" };

typedef struct { unsigned char b[300]; int len; const char *name; char human[120]; } ptest_t;

static void rhs_curve(eckey_t *E, const BIGNUM *x, BIGNUM *out)
{
    BIGNUM *t = BN_new();
    BN_mod_sqr(out, x, E->p, E->bn);
    BN_mod_mul(out, out, x, E->p, E->bn);
    BN_mod_mul(t, E->a, x, E->p, E->bn);
    BN_mod_add(out, out, t, E->p, E->bn);
    BN_mod_add(out, out, E->b, E->p, E->bn);
    BN_free(t);
}

static int on_curve(eckey_t *E, const BIGNUM *x, const BIGNUM *y)
{
    BIGNUM *l = BN_new(), *rr = BN_new(), *xm = BN_new();
    int ok;
    BN_nnmod(xm, x, E->p, E->bn);
    rhs_curve(E, xm, rr);
    BN_nnmod(l, y, E->p, E->bn);
    BN_mod_sqr(l, l, E->p, E->bn);
    ok = BN_cmp(l, rr) == 0;
    BN_free(l); BN_free(rr); BN_free(xm);
    return ok;
}

static void put_xy(ptest_t *t, int fmt, const BIGNUM *x, const BIGNUM *y, int clen)
{
    t->b[0] = (unsigned char) fmt;
    BN_bn2binpad(x, t->b + 1, clen);
    BN_bn2binpad(y, t->b + 1 + clen, clen);
    t->len = 1 + 2 * clen;
}

static int point_build(eckey_t *E, int v, long i, ptest_t *t)
{
    BIGNUM *k = BN_new(), *x = BN_new(), *y = BN_new(), *t1 = BN_new(), *t2 = BN_new();
    EC_POINT *Q = EC_POINT_new(E->grp);
    int sz = E->size, rc = 0;
    memset(t, 0, sizeof(*t));
    ec_scalar(E, k, "peer-point", 0);
    EC_POINT_mul(E->grp, Q, k, NULL, NULL, E->bn);
    EC_POINT_get_affine_coordinates(E->grp, Q, x, y, E->bn);
    if (v == V_TRUNC)
    {
        put_xy(t, 4, x, y, sz);
        if (i < 0 || i >= t->len) { rc = NA; goto out; }
        snprintf(t->human, sizeof(t->human), "valid point truncated to %ld of %d bytes", i, t->len);
        t->len = (int) i;
        t->name = "point-truncated";
        goto out;
    }
    if (v != V_NAMED || i < 0 || i >= Q_NPT) { rc = NA; goto out; }
    t->name = point_named[i];
    snprintf(t->human, sizeof(t->human), "peer public point variant %s", t->name);
    switch (i)
    {
    case Q_VALID: put_xy(t, 4, x, y, sz); break;
    case Q_NEG: BN_sub(t1, E->p, y); put_xy(t, 4, x, t1, sz); break;
    case Q_INF_1BYTE: t->b[0] = 0; t->len = 1; break;
    case Q_INF_FULL: memset(t->b, 0, (size_t) (2 * sz + 1)); t->len = 2 * sz + 1; break;
    case Q_ZERO_ZERO: BN_zero(t1); put_xy(t, 4, t1, t1, sz); break;
    case Q_Y_PLUS1: BN_copy(t1, y); BN_add_word(t1, 1); put_xy(t, 4, x, t1, sz); break;
    case Q_Y_MINUS1: BN_copy(t1, y); BN_sub_word(t1, 1); put_xy(t, 4, x, t1, sz); break;
    case Q_X_PLUS1: BN_copy(t1, x); BN_add_word(t1, 1); put_xy(t, 4, t1, y, sz); break;
    case Q_X_EQ_P: put_xy(t, 4, E->p, y, sz); break;
    case Q_Y_EQ_P: put_xy(t, 4, x, E->p, sz); break;
    case Q_P_P: put_xy(t, 4, E->p, E->p, sz); break;
    case Q_X_PLUS_P: case Q_Y_PLUS_P:
    {
        /* non-canonical coordinate c+p: same residue, not in [0,p-1]; longer encoding if it does not fit */
        int cl;
        BN_add(t1, i == Q_X_PLUS_P ? x : y, E->p);
        cl = BN_num_bytes(t1) > sz ? sz + 1 : sz;
        if (i == Q_X_PLUS_P) put_xy(t, 4, t1, y, cl); else put_xy(t, 4, x, t1, cl);
        break;
    }
    case Q_TWIST:
    {
        /* smallest x0 >= 2 for which x^3+ax+b is a non-residue: no point of the curve has this x.
           y is a root of u*(x^3+ax+b) for the smallest non-residue u: a point of the quadratic twist */
        BIGNUM *u = BN_new();
        BN_set_word(t1, 2);
        for (;;)
        {
            rhs_curve(E, t1, t2);
            if (BN_kronecker(t2, E->p, E->bn) == -1) break;
            BN_add_word(t1, 1);
        }
        BN_set_word(u, 2);
        while (BN_kronecker(u, E->p, E->bn) != -1) BN_add_word(u, 1);
        BN_mod_mul(t2, t2, u, E->p, E->bn);
        if (!BN_mod_sqrt(t2, t2, E->p, E->bn)) rc = -1;
        put_xy(t, 4, t1, t2, sz);
        BN_free(u);
        break;
    }
    case Q_ONE_ONE: BN_one(t1); put_xy(t, 4, t1, t1, sz); break;
    case Q_X_ZERO:
        /* (0, sqrt(b)) is a genuine point when b is a square: must then be accepted */
        BN_zero(t1);
        if (BN_kronecker(E->b, E->p, E->bn) != 1 || !BN_mod_sqrt(t2, E->b, E->p, E->bn)) { rc = NA; break; }
        put_xy(t, 4, t1, t2, sz); break;
    case Q_SHORT2: put_xy(t, 4, x, y, sz); memmove(t->b + 1, t->b + 3, (size_t) (2 * sz - 2)); t->len -= 2; break;
    case Q_LONG_ZEROS: put_xy(t, 4, x, y, sz + 1); break;
    case Q_LONG_GARBAGE: put_xy(t, 4, x, y, sz); t->b[t->len++] = 0xa5; t->b[t->len++] = 0x5a; break;
    case Q_FMT02: case Q_FMT03:
        t->b[0] = (unsigned char) (i == Q_FMT02 ? 2 : 3);
        BN_bn2binpad(x, t->b + 1, sz); t->len = 1 + sz; break;
    case Q_FMT02_FULL: put_xy(t, 2, x, y, sz); break;
    case Q_FMT06: put_xy(t, 6, x, y, sz); break;
    case Q_FMT07: put_xy(t, 7, x, y, sz); break;
    case Q_FMT05: put_xy(t, 5, x, y, sz); break;
    case Q_FMT00_XY: put_xy(t, 0, x, y, sz); break;
    case Q_FMTFF: put_xy(t, 0xff, x, y, sz); break;
    case Q_OTHER_CURVE:
    {
        /* generator of another enabled NIST curve in its own encoding */
        eckey_t *O = ec_get(E->bits == 256 ? 384 : 256);
        if (!O) { rc = NA; break; }
        t->len = (int) EC_POINT_point2oct(O->grp, EC_GROUP_get0_generator(O->grp), POINT_CONVERSION_UNCOMPRESSED, t->b, sizeof(t->b), O->bn);
        break;
    }
    case Q_G:
        t->len = (int) EC_POINT_point2oct(E->grp, EC_GROUP_get0_generator(E->grp), POINT_CONVERSION_UNCOMPRESSED, t->b, sizeof(t->b), E->bn);
        break;
    case Q_EVEN_LEN: put_xy(t, 4, x, y, sz); t->len -= 1; break;
    case Q_X_ONLY_04: t->b[0] = 4; BN_bn2binpad(x, t->b + 1, sz); t->len = 1 + sz; break;
    case Q_SMALL_X:
        /* the valid point with the smallest x >= 1 (one machine word): must be accepted */
        BN_one(t1);
        for (;;)
        {
            rhs_curve(E, t1, t2);
            if (BN_kronecker(t2, E->p, E->bn) == 1) break;
            BN_add_word(t1, 1);
        }
        if (!BN_mod_sqrt(t2, t2, E->p, E->bn)) { rc = -1; break; }
        put_xy(t, 4, t1, t2, sz); break;
    }
out:
    BN_free(k); BN_free(x); BN_free(y); BN_free(t1); BN_free(t2);
    EC_POINT_free(Q);
    return rc;
}

static int run_point(const case_t *c, mx_result_t *r)
{
    eckey_t *E = ec_get(c->k);
    static ptest_t t;
    psEccKey_t pub;
    unsigned char *hb, out[160], refsec[80];
    psSize_t outlen = sizeof(out);
    int rc, irc, src = -999, acc, oncurve = 0, canonical = 0, fmt_ok, have_ref = 0;
    BIGNUM *x = BN_new(), *y = BN_new();
    char md[96], key[160];

    if (!E)
    {
        BN_free(x); BN_free(y);
        return NA;
    }
    rc = point_build(E, c->v, c->i, &t);
    if (rc == NA)
    {
        BN_free(x); BN_free(y);
        return NA;
    }
    case_mdesc(c, md, sizeof(md));
    snprintf(r->desc, sizeof(r->desc), "%s (ECDH P-%d: %s)", md, E->bits, t.human);
    if (rc < 0)
    {
        internal_err(r, "point-build", "cannot build %s", r->desc);
        goto done;
    }
    /* numeric view exactly as an X9.63 uncompressed reader splits the octets */
    fmt_ok = t.len >= 3 && (t.len & 1) && t.b[0] == 4;
    if (fmt_ok)
    {
        int half = (t.len - 1) / 2;
        BN_bin2bn(t.b + 1, half, x);
        BN_bin2bn(t.b + 1 + half, half, y);
        oncurve = on_curve(E, x, y);
        canonical = t.len == 2 * E->size + 1 && BN_cmp(x, E->p) < 0 && BN_cmp(y, E->p) < 0;
        if (oncurve)
        {
            EC_POINT *P = EC_POINT_new(E->grp), *S = EC_POINT_new(E->grp);
            BIGNUM *sx = BN_new();
            BN_nnmod(x, x, E->p, E->bn);
            BN_nnmod(y, y, E->p, E->bn);
            if (EC_POINT_set_affine_coordinates(E->grp, P, x, y, E->bn) && EC_POINT_mul(E->grp, S, NULL, P, E->d, E->bn) &&
                EC_POINT_get_affine_coordinates(E->grp, S, sx, NULL, E->bn))
            {
                BN_bn2binpad(sx, refsec, E->size);
                have_ref = 1;
            }
            EC_POINT_free(P); EC_POINT_free(S); BN_free(sx);
            ERR_clear_error();
        }
    }
    hb = hdup(t.b, (size_t) t.len);
    memset(&pub, 0, sizeof(pub));
    memset(out, 0, sizeof(out));
    irc = psEccX963ImportKey(NULL, hb, (psSize_t) t.len, &pub, E->curve);
    if (irc >= 0)
    {
        src = psEccGenSharedSecret(NULL, &E->mx.key.ecc, &pub, out, &outlen, NULL);
        psEccClearKey(&pub);
    }
    free(hb);
    acc = irc >= 0 && src >= 0;
    DUMPF("case %s\n", r->desc);
    dumphex("peer point octets", t.b, (size_t) t.len);
    DUMPF("  format/length plausible=%d  (x,y) on curve (mod p)=%d  canonical=%d\n", fmt_ok, oncurve, canonical);
    DUMPF("  MatrixSSL psEccX963ImportKey rc=%d  psEccGenSharedSecret rc=%d -> %s\n", irc, src, acc ? "SECRET PRODUCED" : "refused");
    if (acc) dumphex("MatrixSSL secret", out, outlen);
    if (have_ref) dumphex("reference secret", refsec, (size_t) E->size);

    if ((c->v == V_NAMED && (c->i == Q_VALID || c->i == Q_NEG || c->i == Q_G || c->i == Q_X_ZERO || c->i == Q_SMALL_X) && !(oncurve && canonical)) ||
        (c->v == V_NAMED && (c->i == Q_Y_PLUS1 || c->i == Q_TWIST || c->i == Q_ZERO_ZERO || c->i == Q_X_EQ_P) && oncurve))
    {
        internal_err(r, "point-oracle-mismatch", "on-curve=%d contradicts the construction of %s", oncurve, r->desc);
        goto done;
    }
    if (acc && !oncurve)
    {
        snprintf(key, sizeof(key), "ecdh|p%d|%s|accepted-invalid-point", E->bits, t.name);
        violate(r, key, "psEccX963ImportKey + psEccGenSharedSecret produced a shared secret from a peer value that is not a point of P-%d (%s, %d bytes, import rc=%d)",
            E->bits, t.human, t.len, irc);
    }
    else if (acc && have_ref && (outlen != E->size || memcmp(out, refsec, (size_t) E->size) != 0))
    {
        snprintf(key, sizeof(key), "ecdh|p%d|%s|wrong-shared-secret", E->bits, t.name);
        violate(r, key, "ECDH secret for P-%d differs from the reference x-coordinate of d*Q (%s, outlen %d)", E->bits, t.human, (int) outlen);
    }
    else if (!acc && oncurve && canonical)
    {
        snprintf(key, sizeof(key), "ecdh|p%d|%s|rejected-valid-point", E->bits, t.name);
        violate(r, key, "a valid canonical P-%d point was refused (import rc=%d, ecdh rc=%d; %s)", E->bits, irc, src, t.human);
    }
    snprintf(r->outcome, sizeof(r->outcome), "point/%s/%s%s", var_name[c->v], (oncurve && !canonical) ? "dontcare-" : "",
        acc ? "secret" : irc < 0 ? "import-refused" : "ecdh-refused");
    r->nontrivial = 1;
    r->transitions = 2;
    r->trace_hash = fnv1a(&acc, sizeof(acc), fnv1a(md, strlen(md), FNV0));
done:
    BN_free(x); BN_free(y);
    return 0;
}

/* ---------------------------------------------------------------- Ed25519 */
typedef struct { const char *sk, *pk, *msg, *sig; } edvec_t;
static const edvec_t EDV[4] = {
    { "9d61b19deffd5a60ba844af492ec2cc44449c5697b326919703bac031cae7f60", "d75a980182b10ab7d54bfed3c964073a0ee172f3daa62325af021a68f707511a", "",
      "e5564300c360ac729086e2cc806e828a84877f1eb8e5d974d873e065224901555fb8821590a33bacc61e39701cf9b46bd25bf5f0595bbe24655141438e7a100b" },
    { "4ccd089b28ff96da9db6c346ec114e0f5b8a319f35aba624da8cf6ed4fb8a6fb", "3d4017c3e843895a92b70aa74d1b7ebc9c982ccf2ec4968cc0cd55f12af4660c", "72",
      "92a009a9f0d4cab8720e820b5f642540a2b27b5416503f8fb3762223ebdb69da085ac1e43e15996e458f3613d0f11d8c387b2eaeb4302aeeb00d291612bb0c00" },
    { "c5aa8df43f9f837bedb7442f31dcb7b166d38535076f094b85ce3a2e0b4458f7", "fc51cd8e6218a1a38da47ed00230f0580816ed13ba3303ac5deb911548908025", "af82",
      "6291d657deec24024827e69c3abe01a30ce548a284743a445e3680d7db5ac3ac18ff9b538d16f290ae67f760984dc6594a7c15e9716ed28dc027beceea1ec40a" },
    { "833fe62409237b9d62ec77587520911e9a759cec1d19755b7da901b96dca3d42", "ec172b93ad5e563bf4932c70e1245034c35467ef2efd4d64ebf819683467e2bf",
      "ddaf35a193617abacc417349ae20413112e6fa4e89a97ea20a9eeee64b55d39a2192992a274fc1a836ba3c23a3feebbd454d4423643ce80e2a9ac94fa54ca49f",
      "dc2a4459e7369633a52b1bf277839a00201009a3efbf3ecb69bea2186c26b58909351fc9ac90b3ecfdfbc7c66431e0303dca179c138ac17ad9bef1177331a704" },
};
#define ED_NVEC 5  /* 0..3 RFC 8032 7.1 vectors, 4 = testkeys/EC/ED25519_KEY with a standard message */

enum { X_VALID = 0, X_S_PLUS_L, X_S_PLUS_2L, X_S_PLUS_4L, X_S_PLUS_8L, X_SIG_ZERO, X_SIG_FF, X_SMALL_ORDER_KEY, X_S_ZERO, X_R_IDENTITY, X_NED };
static const char *ed_named[X_NED] = { "valid", "s-plus-L", "s-plus-2L", "s-plus-4L", "s-plus-8L", "sig-zero", "sig-ff",
                                       "small-order-key", "S-zero", "R-identity" };
static const char *ed_which[4] = { "R", "S", "pubkey", "msg" };

typedef struct {
    unsigned char sk[32], pk[32], msg[128], sig[80];
    int msglen, siglen, dontcare;
    const char *name;
    char human[120];
} edtest_t;

static int ed_vector(int idx, edtest_t *t)
{
    memset(t, 0, sizeof(*t));
    t->siglen = 64;
    if (idx >= 0 && idx < 4)
    {
        unhex(t->sk, EDV[idx].sk, 32);
        unhex(t->pk, EDV[idx].pk, 32);
        t->msglen = unhex(t->msg, EDV[idx].msg, sizeof(t->msg));
        unhex(t->sig, EDV[idx].sig, 64);
        return 0;
    }
    if (idx == 4)
    {
        EVP_PKEY *pk;
        EVP_MD_CTX *mc;
        size_t l = 32, sl = 64;
        int ok;
        memcpy(t->sk, ED25519_KEY + 16, 32);
        pk = EVP_PKEY_new_raw_private_key(EVP_PKEY_ED25519, NULL, t->sk, 32);
        if (!pk) return -1;
        EVP_PKEY_get_raw_public_key(pk, t->pk, &l);
        t->msglen = std_msg(t->msg, "ed25519", 255, -1, 0);
        mc = EVP_MD_CTX_new();
        ok = EVP_DigestSignInit(mc, NULL, NULL, NULL, pk) > 0 && EVP_DigestSign(mc, t->sig, &sl, t->msg, (size_t) t->msglen) > 0;
        EVP_MD_CTX_free(mc);
        EVP_PKEY_free(pk);
        return ok ? 0 : -1;
    }
    return NA;
}

static int ref_ed_verify(const edtest_t *t)
{
    EVP_PKEY *pk = EVP_PKEY_new_raw_public_key(EVP_PKEY_ED25519, NULL, t->pk, 32);
    EVP_MD_CTX *mc;
    int ok = 0;
    unsigned char dummy = 0;
    if (!pk)
    {
        ERR_clear_error();
        return 0;
    }
    mc = EVP_MD_CTX_new();
    if (EVP_DigestVerifyInit(mc, NULL, NULL, NULL, pk) > 0)
    {
        ok = EVP_DigestVerify(mc, t->siglen ? t->sig : &dummy, (size_t) t->siglen, t->msglen ? t->msg : &dummy, (size_t) t->msglen) == 1;
    }
    EVP_MD_CTX_free(mc);
    EVP_PKEY_free(pk);
    ERR_clear_error();
    return ok;
}

static const unsigned char ED_L[32] = { 0xed, 0xd3, 0xf5, 0x5c, 0x1a, 0x63, 0x12, 0x58, 0xd6, 0x9c, 0xf7, 0xa2, 0xde, 0xf9, 0xde, 0x14,
                                        0, 0, 0, 0, 0, 0, 0, 0, 0, 0, 0, 0, 0, 0, 0, 0x10 };

static int ed_build(int vec, int v, long i, edtest_t *t)
{
    int rc = ed_vector(vec, t);
    if (rc != 0) return rc;
    switch (v)
    {
    case V_NAMED:
        if (i < 0 || i >= X_NED) return NA;
        t->name = ed_named[i];
        snprintf(t->human, sizeof(t->human), "variant %s", t->name);
        switch (i)
        {
        case X_VALID: break;
        case X_S_PLUS_L: case X_S_PLUS_2L: case X_S_PLUS_4L: case X_S_PLUS_8L:
        {
            BIGNUM *s = BN_new(), *l = BN_new();
            int m = i == X_S_PLUS_L ? 1 : i == X_S_PLUS_2L ? 2 : i == X_S_PLUS_4L ? 4 : 8;
            BN_lebin2bn(t->sig + 32, 32, s);
            BN_lebin2bn(ED_L, 32, l);
            BN_mul_word(l, (BN_ULONG) m);
            BN_add(s, s, l);
            if (BN_num_bits(s) > 256) { BN_free(s); BN_free(l); return NA; }
            BN_bn2lebinpad(s, t->sig + 32, 32);
            BN_free(s); BN_free(l);
            break;
        }
        case X_SIG_ZERO: memset(t->sig, 0, 64); break;
        case X_SIG_FF: memset(t->sig, 0xff, 64); break;
        case X_SMALL_ORDER_KEY:
            /* A = identity (order 1), R = identity, S = 0: satisfies [S]B = R + [k]A for every message.
               RFC 8032 does not forbid small-order keys; implementations may refuse them: don't care */
            memset(t->pk, 0, 32); t->pk[0] = 1;
            memset(t->sig, 0, 64); t->sig[0] = 1;
            t->dontcare = 1;
            break;
        case X_S_ZERO: memset(t->sig + 32, 0, 32); break;
        case X_R_IDENTITY: memset(t->sig, 0, 32); t->sig[0] = 1; break;
        }
        return 0;
    case V_BIT:
    {
        int w = (int) (i / 4096), b = (int) (i % 4096);
        unsigned char *tgt = w == 0 ? t->sig : w == 1 ? t->sig + 32 : w == 2 ? t->pk : t->msg;
        int nb = w == 3 ? 8 * t->msglen : 256;
        if (w < 0 || w > 3 || b >= nb) return NA;
        tgt[b / 8] ^= (unsigned char) (1 << (b % 8));
        t->name = w == 0 ? "bitflip-R" : w == 1 ? "bitflip-S" : w == 2 ? "bitflip-pubkey" : "bitflip-msg";
        snprintf(t->human, sizeof(t->human), "bit %d of %s flipped", b, ed_which[w]);
        return 0;
    }
    case V_TRUNC:
        if (i < 0 || i >= 64) return NA;
        t->siglen = (int) i;
        t->name = "sig-truncated";
        snprintf(t->human, sizeof(t->human), "valid signature truncated to %ld of 64 bytes", i);
        return 0;
    }
    return NA;
}

static const char *apied_name[3] = { "psEd25519Verify", "psVerifySig", "psVerify" };

static int run_ed(const case_t *c, mx_result_t *r)
{
#ifndef USE_ED25519
    return NA;
#else
    static edtest_t t;
    int rc = ed_build(c->k, c->v, c->i, &t), ref, api, nacc = 0, nrej = 0;
    char md[96];
    uint64_t th;
    if (rc == NA)
    {
        return NA;
    }
    case_mdesc(c, md, sizeof(md));
    snprintf(r->desc, sizeof(r->desc), "%s (Ed25519 vector %d%s: %s)", md, c->k, c->k < 4 ? " of RFC 8032 7.1" : " = testkeys ED25519_KEY", t.human);
    if (rc < 0)
    {
        internal_err(r, "ed-vector", "cannot build Ed25519 vector %d", c->k);
        return 0;
    }
    ref = ref_ed_verify(&t);
    DUMPF("case %s\n", r->desc);
    dumphex("public key", t.pk, 32);
    dumphex("message", t.msg, (size_t) t.msglen);
    dumphex("signature R||S", t.sig, (size_t) t.siglen);
    DUMPF("  OpenSSL EVP_DigestVerify = %s%s\n", ref ? "accept" : "reject", t.dontcare ? " (don't care: small-order key)" : "");
    if ((c->v == V_NAMED && c->i == X_VALID && !ref) || (c->v != V_NAMED && ref) ||
        (c->v == V_NAMED && c->i >= X_S_PLUS_L && c->i <= X_SIG_FF && ref))
    {
        internal_err(r, "ed-oracle-mismatch", "OpenSSL verdict %d contradicts the construction of %s", ref, r->desc);
        return 0;
    }
    th = fnv1a(md, strlen(md), FNV0);
    for (api = 0; api < 3; api++)
    {
        unsigned char *hs, *hm;
        int32_t mrc;
        int acc;
        char key[160];
        if (api == 0 && t.siglen != 64)
        {
            continue; /* fixed-size array parameter: only full signatures */
        }
        hs = hdup(t.sig, (size_t) t.siglen);
        hm = hdup(t.msg, (size_t) t.msglen);
        if (api == 0)
        {
            mrc = psEd25519Verify(hs, hm, (psSizeL_t) t.msglen, t.pk);
            acc = mrc == PS_SUCCESS;
        }
        else
        {
            psPubKey_t pk;
            psBool_t res = PS_FALSE;
            memset(&pk, 0, sizeof(pk));
            pk.type = PS_ED25519;
            pk.keysize = 32;
            memcpy(pk.key.ed25519.pub, t.pk, 32);
            pk.key.ed25519.havePub = PS_TRUE;
            if (api == 1)
            {
                mrc = psVerifySig(NULL, hm, (psSizeL_t) t.msglen, hs, (psSize_t) t.siglen, &pk, OID_ED25519_KEY_ALG, &res, NULL);
            }
            else
            {
                psVerifyOptions_t o;
                memset(&o, 0, sizeof(o));
                mrc = psVerify(NULL, hm, (psSizeL_t) t.msglen, hs, (psSize_t) t.siglen, &pk, OID_ED25519_KEY_ALG, &res, &o);
            }
            acc = (mrc == PS_SUCCESS && res == PS_TRUE) ? 1 : (mrc == PS_SUCCESS || res == PS_TRUE) ? 2 : 0;
        }
        free(hs); free(hm);
        DUMPF("  MatrixSSL %-28s rc=%d -> %s\n", apied_name[api], mrc, acc == 1 ? "ACCEPT" : acc == 2 ? "INCONSISTENT" : "reject");
        th = fnv1a(&acc, sizeof(acc), th);
        if (acc == 2)
        {
            snprintf(key, sizeof(key), "ed25519|%s|%s|inconsistent-result", t.name, apied_name[api]);
            violate(r, key, "%s returned rc=%d with a contradicting verifyResult", apied_name[api], mrc);
            acc = 1;
        }
        if (acc) nacc++; else nrej++;
        if (t.dontcare)
        {
            continue;
        }
        if (acc && !ref)
        {
            snprintf(key, sizeof(key), "ed25519|%s|%s|%s", t.name, apied_name[api],
                (c->v == V_NAMED && c->i >= X_S_PLUS_L && c->i <= X_S_PLUS_8L) ? "accepted-noncanonical-S" :
                t.siglen != 64 ? "accepted-truncated" : "accepted-invalid");
            violate(r, key, "%s ACCEPTED an Ed25519 signature that RFC 8032 5.1.7 declares invalid (%s; OpenSSL rejects)", apied_name[api], t.human);
        }
        else if (!acc && ref)
        {
            snprintf(key, sizeof(key), "ed25519|%s|%s|rejected-valid", t.name, apied_name[api]);
            violate(r, key, "%s rejected (rc=%d) a valid Ed25519 signature (%s)", apied_name[api], mrc, t.human);
        }
    }
    snprintf(r->outcome, sizeof(r->outcome), "ed25519/%s/%s%s", var_name[c->v], t.dontcare ? "dontcare-" : "", nacc && nrej ? "mixed" : nacc ? "accept" : "reject");
    r->nontrivial = 1;
    r->transitions = 3;
    r->trace_hash = th;
    return 0;
#endif
}

#endif /* C11_ECC_H */
