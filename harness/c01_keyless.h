/* c01_keyless.h - C01 part K: a network attacker WITHOUT ANY KEY plays the server towards a TLS 1.2 client that offers to
 * resume.  The client's stored session (sslSessionId_t) is brought into each of its reachable shapes by honest connections;
 * the attacker then answers the victim's ClientHello with ServerHello (session id empty / echoed / another one; with or
 * without an empty SessionTicket extension), ChangeCipherSpec, a Finished and one application record, all derived from a
 * master secret the attacker can know: 48 zero bytes.  Everything else it uses is public (the two randoms, the hellos).
 * Oracle: the client never completes and never delivers - the attacker proved nothing.  (RFC 5077 3.4 makes the sequence
 * ServerHello, ChangeCipherSpec, Finished legal for a ticket resumption: it is the SECRET that must come from the ticket's
 * session.) */
#ifndef C01_KEYLESS_H
#define C01_KEYLESS_H
#include "tk.h"

enum { KS_ID = 0, KS_TICKET, KS_ID_AND_TICKET, KS_TICKET_OTHER_SUITE_LIST, KS_N };
static const char *ksname[] = { "session-id", "ticket", "stale-session-id+ticket", "ticket+explicit-suite-list-without-its-suite" };
enum { KI_EMPTY = 0, KI_ECHO, KI_OTHER, KI_N };
static const char *kiname[] = { "empty-id", "echoed-id", "other-id" };
enum { KE_NONE = 0, KE_TICKET_EXT, KE_N };
static const char *kename[] = { "no-extensions", "empty-session-ticket-extension" };

typedef struct { int ks, ki, ke, ems; } kcase_t;

static int k_connect(world_t *w)
{
    int ok;
    if (world_new_sessions(w) < 0)
    {
        return -1;
    }
    world_pump(w, 200);
    ok = world_is_complete(w, 0) && world_is_complete(w, 1);
    if (ok)
    {
        world_app_send(w, 0, (const unsigned char *) "x", 1);
        world_pump(w, 50);
        world_close(w, 0);
        world_pump(w, 20);
        world_close(w, 1);
        world_pump(w, 20);
    }
    world_free_sessions(w);
    return ok ? 0 : -2;
}

static void k_run_case(void *ctx, mx_result_t *r)
{
    kcase_t *k = ctx;
    static world_t w;
    wcfg_t c;
    unsigned char ch[2048], sh[256], rec[512], fin[16], vd[12], kb[40], seed[64], crand[32], srand_[32], zero_ms[48];
    static const unsigned char ccs[6] = { 20, 3, 3, 0, 1, 1 };
    int chl = 0, shl, i, off, cidl, rl, complete;
    uint16_t suite = TLS_RSA_WITH_AES_128_GCM_SHA256;
    buf_t tr;
    wire_t *q;

    r->nontrivial = 1;
    snprintf(r->outcome, sizeof(r->outcome), "partK:%s:%s:%s:ems%d", ksname[k->ks], kiname[k->ki], kename[k->ke], k->ems);
    memset(&c, 0, sizeof(c));
    c.ver = V_TLS12; c.kx = KX_RSA; c.suite = suite; c.ems_off = !k->ems;
    /* --- bring the client's stored session into shape with honest connections */
    switch (k->ks)
    {
    case KS_ID:
        c.tickets = 0;
        break;
    case KS_TICKET:
    case KS_TICKET_OTHER_SUITE_LIST:
        c.tickets = 1;
        if (k->ks == KS_TICKET_OTHER_SUITE_LIST)
        {
            c.kx = KX_ECDHE_RSA; c.suite = TLS_ECDHE_RSA_WITH_AES_128_GCM_SHA256;
        }
        break;
    case KS_ID_AND_TICKET:
        c.tickets = 2;   /* the client asks for a ticket, this server has no ticket keys: it answers with a session id */
        break;
    }
    if (world_init(&w, &c) < 0)
    {
        goto internal;
    }
    world_free_sessions(&w);
    matrixSslClearSessionId(w.sid);
    if (k_connect(&w) != 0)
    {
        goto internal;
    }
    if (k->ks == KS_ID_AND_TICKET)
    {
        /* the cached session expires; the same client reconnects to a server that now has ticket keys: full handshake,
           a ticket is issued, the stored session keeps the stale id beside it */
        static world_t w2;
        sslSessionId_t *sid = w.sid;
        c.tickets = 1;
        if (world_init(&w2, &c) < 0)
        {
            goto internal;
        }
        env_tick_ms(2LL * 86400 * 1000);   /* (world_init resets the pinned clock) */
        world_free_sessions(&w2);
        matrixSslDeleteSessionId(w2.sid);
        w2.sid = sid;
        if ((i = k_connect(&w2)) != 0)
        {
            if (getenv("MXV_DEBUG")) fprintf(stderr, "w2 connect %d\n%s\n", i, (char *) w2.trace.p);
            goto internal;
        }
        w.cfg.tickets = 1;
    }
    if (k->ks == KS_TICKET_OTHER_SUITE_LIST)
    {
        w.cfg.kx = KX_RSA; w.cfg.suite = suite;   /* the victim session is created with an explicit suite list without the ticket's suite */
    }
    if ((k->ks == KS_ID || k->ks == KS_ID_AND_TICKET) && w.sid->idLen == 0)
    {
        goto internal;
    }
    if (k->ks != KS_ID && w.sid->sessionTicketLen == 0)
    {
        goto internal;
    }
    /* --- the victim connection: only the client is used */
    if (world_new_sessions(&w) < 0)
    {
        goto internal;
    }
    world_collect(&w, 0);
    q = &w.wire[0];
    if (q->n < 1 || q->r[q->head].p[0] != 22 || q->r[q->head].len > (int) sizeof(ch) || q->r[q->head].p[5] != 1)
    {
        goto internal;
    }
    chl = q->r[q->head].len - 5;
    memcpy(ch, q->r[q->head].p + 5, (size_t) chl);
    world_wire_clear(&w, 0);
    memcpy(crand, ch + 6, 32);
    cidl = ch[38];
    /* --- the attacker's flight */
    for (i = 0; i < 32; i++) srand_[i] = (unsigned char) (0xA5 ^ i);
    off = 0;
    sh[off++] = 2; off += 3;
    sh[off++] = 3; sh[off++] = 3;
    memcpy(sh + off, srand_, 32); off += 32;
    if (k->ki == KI_EMPTY || (k->ki == KI_ECHO && cidl == 0))
    {
        sh[off++] = 0;
    }
    else if (k->ki == KI_ECHO)
    {
        sh[off++] = (unsigned char) cidl;
        memcpy(sh + off, ch + 39, (size_t) cidl); off += cidl;
    }
    else
    {
        sh[off++] = 32;
        for (i = 0; i < 32; i++) sh[off++] = (unsigned char) (0x3c + i);
    }
    sh[off++] = (unsigned char) (suite >> 8); sh[off++] = (unsigned char) suite;
    sh[off++] = 0;
    if (k->ke == KE_TICKET_EXT)
    {
        sh[off++] = 0; sh[off++] = 4; sh[off++] = 0; sh[off++] = 35; sh[off++] = 0; sh[off++] = 0;
    }
    shl = off;
    sh[1] = 0; sh[2] = (unsigned char) ((shl - 4) >> 8); sh[3] = (unsigned char) (shl - 4);
    rec[0] = 22; rec[1] = 3; rec[2] = 3; rec[3] = (unsigned char) (shl >> 8); rec[4] = (unsigned char) shl;
    memcpy(rec + 5, sh, (size_t) shl);
    world_feed(&w, 0, rec, 5 + shl);
    world_feed(&w, 0, ccs, 6);
    memset(zero_ms, 0, sizeof(zero_ms));
    memcpy(seed, srand_, 32); memcpy(seed + 32, crand, 32);
    tk12_prf_sha256(zero_ms, 48, "key expansion", seed, 64, kb, 40);
    buf_init(&tr);
    buf_add(&tr, ch, (size_t) chl);
    buf_add(&tr, sh, (size_t) shl);
    tk12_finished(zero_ms, 0, &tr, vd);
    fin[0] = 20; fin[1] = 0; fin[2] = 0; fin[3] = 12;
    memcpy(fin + 4, vd, 12);
    rl = tk12_gcm_seal(kb + 16, 16, kb + 36, 0, 22, fin, 16, rec);
    if (rl > 0 && w.s[0].err_rc >= 0)
    {
        world_feed(&w, 0, rec, rl);
    }
    rl = tk12_gcm_seal(kb + 16, 16, kb + 36, 1, 23, (const unsigned char *) "INJECTED-WITHOUT-ANY-KEY", 24, rec);
    if (rl > 0 && w.s[0].err_rc >= 0)
    {
        world_feed(&w, 0, rec, rl);
    }
    buf_free(&tr);
    complete = world_is_complete(&w, 0);
    r->transitions = 4;
    r->trace_hash = world_trace_hash(&w);
    {
        size_t l = strlen(r->outcome);
        snprintf(r->outcome + l, sizeof(r->outcome) - l, ":%s:alert%d", complete ? "COMPLETE" : "refused", w.s[0].ssl->err);
    }
    if (complete || w.s[0].n_deliveries > 0)
    {
        r->violation = 1;
        snprintf(r->key, sizeof(r->key), "partK|tls12|client-offers=%s|ems=%d|%s|%s|keyless-attacker-completed-the-handshake", ksname[k->ks], k->ems, kiname[k->ki], kename[k->ke]);
        snprintf(r->what, sizeof(r->what), "TLS 1.2 client offering %s: ServerHello (%s, %s), ChangeCipherSpec, Finished and an application record derived from an all-zero master secret were accepted: handshake complete %d, application records delivered %d - the attacker holds no key",
            ksname[k->ks], kiname[k->ki], kename[k->ke], complete, w.s[0].n_deliveries);
    }
    return;
internal:
    r->violation = 2;
    snprintf(r->key, sizeof(r->key), "internal|partK|setup|%s", ksname[k->ks]);
    snprintf(r->what, sizeof(r->what), "part K could not bring the client's stored session into shape %s", ksname[k->ks]);
}

/* ------------------------------------------------------------------ TLS 1.3: a client that offers an (external) PSK
 * The attacker answers with ServerHello {suite, supported_versions 1.3, pre_shared_key selected_identity 0, NO key_share},
 * EncryptedExtensions and Finished, all derived from an Early Secret and an (EC)DHE input of zeros - values it can know.
 * k13 cases: client suite list x the suite the attacker selects.  A client must refuse every one of them (it holds the real
 * PSK, whose Early Secret is not zero; and a suite whose hash is not the PSK's may not be selected with it, RFC 8446 4.2.11). */
#include <openssl/hmac.h>
#include <openssl/evp.h>
typedef struct { int csuite, asuite; } k13case_t;
static void k13_extract(int hl, const unsigned char *salt, const unsigned char *ikm, unsigned char *out)
{
    unsigned int l = 0;
    HMAC(hl == 48 ? EVP_sha384() : EVP_sha256(), salt, hl, ikm, (size_t) hl, out, &l);
}
static void k13_run_case(void *ctx, mx_result_t *r)
{
    k13case_t *k = ctx;
    static world_t w;
    wcfg_t c;
    unsigned char ch[2048], sh[200], rec[600], zero[64], empty_h[64], d1[64], hs[64], ms[64], shs[64], sap[64], th[64], vd[64], fin[80], inner[120];
    static const unsigned char ee[6] = { 8, 0, 0, 2, 0, 0 };
    int chl, off = 0, i, hl = k->asuite == TLS_AES_256_GCM_SHA384 ? 48 : 32, rl, cidl, complete;
    buf_t tr, none;
    tk13_keys_t hk, ak;
    wire_t *q;
    r->nontrivial = 1;
    snprintf(r->outcome, sizeof(r->outcome), "partK13:client-suite=%04x:attacker-selects=%04x", k->csuite, k->asuite);
    memset(&c, 0, sizeof(c));
    c.ver = V_TLS13; c.kx = KX_13_PSK; c.suite = (uint16_t) k->csuite;
    if (world_init(&w, &c) < 0)
    {
        r->nontrivial = 0;
        snprintf(r->outcome + strlen(r->outcome), sizeof(r->outcome) - strlen(r->outcome), ":client-cannot-be-configured");
        return;
    }
    world_collect(&w, 0);
    q = &w.wire[0];
    if (q->n < 1 || q->r[q->head].p[0] != 22 || q->r[q->head].len > (int) sizeof(ch))
    {
        goto internal;
    }
    chl = q->r[q->head].len - 5;
    memcpy(ch, q->r[q->head].p + 5, (size_t) chl);
    world_wire_clear(&w, 0);
    cidl = ch[38];
    sh[off++] = 2; off += 3;
    sh[off++] = 3; sh[off++] = 3;
    for (i = 0; i < 32; i++) sh[off++] = (unsigned char) (0x50 + i);
    sh[off++] = (unsigned char) cidl; memcpy(sh + off, ch + 39, (size_t) cidl); off += cidl;
    sh[off++] = (unsigned char) (k->asuite >> 8); sh[off++] = (unsigned char) k->asuite;
    sh[off++] = 0;
    sh[off++] = 0; sh[off++] = 12;
    sh[off++] = 0; sh[off++] = 43; sh[off++] = 0; sh[off++] = 2; sh[off++] = 3; sh[off++] = 4;
    sh[off++] = 0; sh[off++] = 41; sh[off++] = 0; sh[off++] = 2; sh[off++] = 0; sh[off++] = 0;
    sh[1] = 0; sh[2] = 0; sh[3] = (unsigned char) (off - 4);
    memset(zero, 0, sizeof(zero));
    buf_init(&none); buf_init(&tr);
    tk_transcript_hash(hl, &none, empty_h);
    tk_hkdf_expand_label(hl, zero, "derived", empty_h, hl, d1, hl);
    k13_extract(hl, d1, zero, hs);
    buf_add(&tr, ch, (size_t) chl); buf_add(&tr, sh, (size_t) off);
    tk_transcript_hash(hl, &tr, th);
    tk_hkdf_expand_label(hl, hs, "s hs traffic", th, hl, shs, hl);
    if (tk13_keys_from_secret(&hk, (uint16_t) k->asuite, shs, hl) < 0)
    {
        goto internal;
    }
    buf_add(&tr, ee, sizeof(ee));
    tk_transcript_hash(hl, &tr, th);
    tk13_finished(&hk, th, vd);
    fin[0] = 20; fin[1] = 0; fin[2] = 0; fin[3] = (unsigned char) hl;
    memcpy(fin + 4, vd, (size_t) hl);
    buf_add(&tr, fin, (size_t) (4 + hl));
    tk_hkdf_expand_label(hl, hs, "derived", empty_h, hl, d1, hl);
    k13_extract(hl, d1, zero, ms);
    tk_transcript_hash(hl, &tr, th);
    tk_hkdf_expand_label(hl, ms, "s ap traffic", th, hl, sap, hl);
    if (tk13_keys_from_secret(&ak, (uint16_t) k->asuite, sap, hl) < 0)
    {
        goto internal;
    }
    rec[0] = 22; rec[1] = 3; rec[2] = 3; rec[3] = 0; rec[4] = (unsigned char) off;
    memcpy(rec + 5, sh, (size_t) off);
    world_feed(&w, 0, rec, 5 + off);
    memcpy(inner, ee, sizeof(ee));
    memcpy(inner + sizeof(ee), fin, (size_t) (4 + hl));
    hk.seq = 0;
    rl = tk13_seal(&hk, 22, inner, (int) sizeof(ee) + 4 + hl, rec);
    if (rl > 0 && w.s[0].err_rc >= 0 && w.s[0].ssl->err == SSL_ALERT_NONE)
    {
        world_feed(&w, 0, rec, rl);
    }
    ak.seq = 0;
    rl = tk13_seal(&ak, 23, (const unsigned char *) "INJECTED-WITHOUT-ANY-KEY", 24, rec);
    if (rl > 0 && w.s[0].err_rc >= 0 && w.s[0].ssl->err == SSL_ALERT_NONE)
    {
        world_feed(&w, 0, rec, rl);
    }
    buf_free(&tr); buf_free(&none);
    complete = world_is_complete(&w, 0);
    r->transitions = 3;
    r->trace_hash = world_trace_hash(&w);
    snprintf(r->outcome + strlen(r->outcome), sizeof(r->outcome) - strlen(r->outcome), ":%s:alert%d", complete ? "COMPLETE" : "refused", w.s[0].ssl->err);
    if (complete || w.s[0].n_deliveries > 0)
    {
        r->violation = 1;
        snprintf(r->key, sizeof(r->key), "partK13|tls13|client-suite=%04x|attacker-selects=%04x|keyless-attacker-completed-the-handshake", k->csuite, k->asuite);
        snprintf(r->what, sizeof(r->what), "TLS 1.3 client offering its 32-byte external PSK with suite list {%04x}: ServerHello (suite %04x, selected_identity 0, no key_share), EncryptedExtensions, Finished and an application record derived from an all-zero Early Secret and (EC)DHE input were accepted: complete %d, delivered %d",
            k->csuite, k->asuite, complete, w.s[0].n_deliveries);
    }
    return;
internal:
    r->violation = 2;
    snprintf(r->key, sizeof(r->key), "internal|partK13|setup|%04x", k->csuite);
    snprintf(r->what, sizeof(r->what), "part K13 could not obtain the ClientHello / derive keys");
}

static void k_run_group(void)
{
    {
        static const int suites[3] = { TLS_AES_128_GCM_SHA256, TLS_AES_256_GCM_SHA384, TLS_CHACHA20_POLY1305_SHA256 };
        k13case_t k3;
        int a, b;
        for (a = 0; a < 3; a++)
            for (b = 0; b < 3; b++)
            {
                char desc[200];
                k3.csuite = suites[a]; k3.asuite = suites[b];
                snprintf(desc, sizeof(desc), "K13;c=%d;a=%d (part K13: TLS 1.3 PSK client with suite %04x; keyless attacker selects %04x)", k3.csuite, k3.asuite, k3.csuite, k3.asuite);
                mx_fork_case(desc, k13_run_case, &k3);
            }
    }
    kcase_t k;
    for (k.ks = 0; k.ks < KS_N; k.ks++)
        for (k.ki = 0; k.ki < KI_N; k.ki++)
            for (k.ke = 0; k.ke < KE_N; k.ke++)
                for (k.ems = 0; k.ems < 2; k.ems++)
                {
                    char desc[220];
                    snprintf(desc, sizeof(desc), "K;s=%d;i=%d;e=%d;m=%d (part K: client offers %s, extended master secret %s; attacker answers %s, %s)", k.ks, k.ki, k.ke, k.ems, ksname[k.ks], k.ems ? "on" : "off", kiname[k.ki], kename[k.ke]);
                    mx_fork_case(desc, k_run_case, &k);
                }
}
#endif
