/* c03_univ.h - private to drv_c03.c: keys, certificate kinds and the generated certificate
 * universe (OpenSSL X509 API), plus lazily parsed MatrixSSL copies.  Everything is static. */
#ifndef C03_UNIV_H
#define C03_UNIV_H

#define OPENSSL_SUPPRESS_DEPRECATED
#include "mxv.h"
#include "crypto/cryptoApi.h"
#include <openssl/bn.h>
#include <openssl/evp.h>
#include <openssl/ec.h>
#include <openssl/rsa.h>
#include <openssl/x509.h>
#include <openssl/x509v3.h>
#include <openssl/pem.h>
#include <openssl/err.h>
#include <openssl/objects.h>
#include <stdarg.h>
#include "c03_keys.h"

static int g_dump;                       /* replay: verbose trace to stderr */
#define DUMPF(...) do { if (g_dump) fprintf(stderr, __VA_ARGS__); } while (0)

static void die(const char *fmt, ...) __attribute__((format(printf, 1, 2), noreturn));
static void die(const char *fmt, ...)
{
    va_list ap;
    va_start(ap, fmt);
    fprintf(stderr, "drv_c03: fatal: ");
    vfprintf(stderr, fmt, ap);
    fprintf(stderr, "\n");
    va_end(ap);
    ERR_print_errors_fp(stderr);
    exit(2);
}

/* ------------------------------------------------------------------ slices */
/* SL_RSA is the bulk slice (MatrixSSL verifies RSA-2048 in 0.13 ms, P-256 in 2 ms) */
enum { SL_RSA = 0, SL_NOKID, SL_EC, SL_ED, SL_MIX, SL_N };
static const char *slice_name[SL_N] = { "rsa", "rsa-nokeyid", "p256", "ed25519", "mixed" };

#define MAXINT 4                         /* at most 4 intermediates (thorough) */
/* key slots */
enum { KS_ROOT = 0, KS_L1, KS_L2, KS_L3, KS_L4, KS_LEAF, KS_ATT, KS_ROOT2, KS_SIB, KS_WEAK, KS_N };
static EVP_PKEY *g_key[SL_N][KS_N];

/* ------------------------------------------------------------------- kinds */
enum {
    K_GOOD = 0, K_GOOD_UNKEXT, K_GOOD_EKU, K_GOOD_PSS,
    K_SIG_BITFLIP, K_SIG_WRONGKEY,
    K_SC_ANCHOR_KEEPDN, K_SC_ANCHOR, K_SC_PARENT_KEEPDN, K_SC_PARENT, K_SC_SIBLING,
    K_ALG_MISMATCH, K_ALG_WRONGHASH, K_SHA1, K_MD5,
    K_CA_FALSE, K_BC_ABSENT, K_PL0, K_PL1, K_KU_NOCERTSIGN, K_KU_ABSENT,
    K_EXPIRED, K_NOTYET, K_CRIT_UNK, K_AKI_BAD, K_AKI_ABSENT, K_DN_MISMATCH, K_V1, K_WEAKKEY,
    K_SELFSIGNED, K_EKU_CRIT_OTHER,
    K_N
};
#define F_CA   1   /* usable at an intermediate position */
#define F_LEAF 2   /* usable at the leaf position */
static const struct { const char *name; int where; } kind_tab[K_N] = {
    [K_GOOD]             = { "good", F_CA | F_LEAF },
    [K_GOOD_UNKEXT]      = { "unknown-noncritical-ext", F_CA | F_LEAF },
    [K_GOOD_EKU]         = { "eku-serverauth", F_LEAF },
    [K_GOOD_PSS]         = { "rsa-pss-sha256-signature", F_CA | F_LEAF },
    [K_SIG_BITFLIP]      = { "sig-bit-flipped", F_CA | F_LEAF },
    [K_SIG_WRONGKEY]     = { "signed-by-wrong-key", F_CA | F_LEAF },
    [K_SC_ANCHOR_KEEPDN] = { "sig-copied-from-anchor-dn-kept", F_CA | F_LEAF },
    [K_SC_ANCHOR]        = { "sig-copied-from-anchor", F_CA | F_LEAF },
    [K_SC_PARENT_KEEPDN] = { "sig-copied-from-parent-dn-kept", F_CA | F_LEAF },
    [K_SC_PARENT]        = { "sig-copied-from-parent", F_CA | F_LEAF },
    [K_SC_SIBLING]       = { "sig-copied-from-sibling", F_CA | F_LEAF },
    [K_ALG_MISMATCH]     = { "outer-sigalg-differs-from-tbs", F_CA | F_LEAF },
    [K_ALG_WRONGHASH]    = { "sigalg-names-other-hash", F_CA | F_LEAF },
    [K_SHA1]             = { "sha1-signature", F_CA | F_LEAF },
    [K_MD5]              = { "md5-signature", F_CA | F_LEAF },
    [K_CA_FALSE]         = { "ca-false", F_CA },
    [K_BC_ABSENT]        = { "basicconstraints-absent", F_CA },
    [K_PL0]              = { "pathlen0", F_CA },
    [K_PL1]              = { "pathlen1", F_CA },
    [K_KU_NOCERTSIGN]    = { "keyusage-without-keycertsign", F_CA },
    [K_KU_ABSENT]        = { "keyusage-absent", F_CA },
    [K_EXPIRED]          = { "expired", F_CA | F_LEAF },
    [K_NOTYET]           = { "not-yet-valid", F_CA | F_LEAF },
    [K_CRIT_UNK]         = { "unknown-critical-ext", F_CA | F_LEAF },
    [K_AKI_BAD]          = { "aki-not-issuer-ski", F_CA | F_LEAF },
    [K_AKI_ABSENT]       = { "aki-absent", F_CA | F_LEAF },
    [K_DN_MISMATCH]      = { "issuer-dn-mismatch", F_CA | F_LEAF },
    [K_V1]               = { "x509v1", F_CA | F_LEAF },
    [K_WEAKKEY]          = { "rsa512-key", F_CA | F_LEAF },
    [K_SELFSIGNED]       = { "self-signed-leaf", F_LEAF },
    [K_EKU_CRIT_OTHER]   = { "critical-eku-codesigning", F_LEAF },
};

static int kind_by_name(const char *s)
{
    int k;
    for (k = 0; k < K_N; k++)
    {
        if (!strcmp(kind_tab[k].name, s))
        {
            return k;
        }
    }
    return -1;
}

/* which kinds exist in which slice (the full list only in the RSA-2048 bulk slice) */
static int kind_in_slice(int slice, int kind)
{
    switch (kind)
    {
    case K_MD5: case K_WEAKKEY: case K_AKI_BAD: case K_AKI_ABSENT: case K_GOOD_PSS:
        return slice == SL_RSA;
    case K_SHA1: case K_ALG_WRONGHASH:
        return slice == SL_EC || slice == SL_RSA;
    default:
        break;
    }
    if (slice == SL_RSA)
    {
        return 1;
    }
    if (slice == SL_NOKID)
    {
        switch (kind)
        {
        case K_GOOD: case K_GOOD_UNKEXT: case K_SIG_BITFLIP: case K_SC_ANCHOR: case K_CA_FALSE: case K_PL0: case K_EXPIRED:
            return 1;
        default:
            return 0;
        }
    }
    switch (kind)   /* p256, ed25519, mixed */
    {
    case K_GOOD: case K_SIG_BITFLIP: case K_SIG_WRONGKEY: case K_SC_ANCHOR: case K_SC_PARENT: case K_SC_SIBLING:
    case K_ALG_MISMATCH: case K_CA_FALSE: case K_PL0: case K_PL1: case K_KU_NOCERTSIGN: case K_EXPIRED: case K_NOTYET:
    case K_SELFSIGNED:
        return 1;
    default:
        return 0;
    }
}
static int slice_max_int(int slice)      /* most intermediates the slice has keys for */
{
    return (slice == SL_RSA) ? MAXINT : 2;
}

/* -------------------------------------------------------------------- keys */
static EVP_PKEY *mk_ec(int nid, unsigned seed)
{
    EC_KEY *ec = EC_KEY_new_by_curve_name(nid);
    const EC_GROUP *g = EC_KEY_get0_group(ec);
    BIGNUM *d = BN_new();
    EC_POINT *q = EC_POINT_new(g);
    EVP_PKEY *pk = EVP_PKEY_new();
    unsigned char b[32];
    int i;
    for (i = 0; i < 32; i++)
    {
        b[i] = (unsigned char) (0x11 * (i + 1) + seed * 37 + i * seed);
    }
    b[0] &= 0x7f;
    b[0] |= 0x01;
    BN_bin2bn(b, 32, d);
    if (!EC_POINT_mul(g, q, d, NULL, NULL, NULL) || !EC_KEY_set_private_key(ec, d) || !EC_KEY_set_public_key(ec, q))
    {
        die("ec key");
    }
    EC_KEY_set_asn1_flag(ec, OPENSSL_EC_NAMED_CURVE);
    EVP_PKEY_assign_EC_KEY(pk, ec);
    BN_free(d);
    EC_POINT_free(q);
    return pk;
}
static EVP_PKEY *mk_ed(unsigned seed)
{
    unsigned char b[32];
    int i;
    EVP_PKEY *pk;
    for (i = 0; i < 32; i++)
    {
        b[i] = (unsigned char) (0x5a ^ (i * 7 + seed * 29));
    }
    pk = EVP_PKEY_new_raw_private_key(EVP_PKEY_ED25519, NULL, b, 32);
    if (!pk)
    {
        die("ed25519 key");
    }
    return pk;
}
static EVP_PKEY *mk_rsa(int slot)
{
    BIO *b = BIO_new_mem_buf(c03_rsa_pem[slot], -1);
    EVP_PKEY *pk = PEM_read_bio_PrivateKey(b, NULL, NULL, NULL);
    BIO_free(b);
    if (!pk)
    {
        die("rsa key slot %d", slot);
    }
    return pk;
}

static void slice_keys(int sl)
{
    int i;
    if (g_key[sl][KS_ROOT])
    {
        return;
    }
    switch (sl)
    {
    case SL_RSA:
    case SL_NOKID:
        for (i = 0; i < KS_N; i++) g_key[sl][i] = mk_rsa(i);
        break;
    case SL_EC:
        for (i = 0; i < KS_WEAK; i++) g_key[sl][i] = mk_ec(NID_X9_62_prime256v1, 1 + (unsigned) i);
        break;
    case SL_ED:
        for (i = 0; i < KS_WEAK; i++) g_key[sl][i] = mk_ed(1 + (unsigned) i);
        break;
    case SL_MIX:
        g_key[sl][KS_ROOT] = mk_rsa(KS_ROOT);
        g_key[sl][KS_L1] = mk_ec(NID_secp384r1, 41);
        g_key[sl][KS_L2] = mk_ed(41);
        g_key[sl][KS_LEAF] = mk_ec(NID_X9_62_prime256v1, 42);
        g_key[sl][KS_ATT] = mk_ec(NID_X9_62_prime256v1, 43);
        g_key[sl][KS_ROOT2] = mk_ec(NID_secp384r1, 44);
        g_key[sl][KS_SIB] = mk_ed(45);
        break;
    }
}

static const EVP_MD *md_for(EVP_PKEY *signer)
{
    switch (EVP_PKEY_base_id(signer))
    {
    case EVP_PKEY_ED25519: return NULL;
    case EVP_PKEY_EC: return EVP_PKEY_bits(signer) > 256 ? EVP_sha384() : EVP_sha256();
    default: return EVP_sha256();
    }
}

/* ------------------------------------------------------------- certificates */
enum { LV_ROOT = 0, LV_LEAF = 5 };       /* levels 1..4 = intermediates; LV_LEAF with 'parent' = issuing level */
/* root-level certificate variants */
enum { R_MAIN = 0, R_SECOND, R_PL0, R_PL1, R_CRIT, R_N };   /* R_CRIT: the main root re-issued with an unknown CRITICAL extension: the parser rejects it */
static const char *root_name[R_N] = { "R", "R2(same DN, other key)", "R(pathlen0)", "R(pathlen1)" };

typedef struct {
    int slice, level, parent, kind;      /* level LV_ROOT: kind = R_*; parent only for leaves */
    int sibling;                         /* helper certificate (signature donor), never in a chain */
    X509 *x;
    unsigned char *der;
    int derlen;
    psX509Cert_t *pc[2];                 /* parsed by MatrixSSL: [0] chain copy, [1] anchor copy */
    int pc_rc[2], pc_done[2];
    uint32 pc_flags[2];
    unsigned char *pc_sig[2];            /* signature bytes right after parsing (RSA verification decrypts them in place) */
} ucert_t;

#define MAXU 1400
static ucert_t U[MAXU];
static int nU;
static int u_root[SL_N][R_N];
static int u_ca[SL_N][MAXINT + 1][K_N];          /* [level 1..4][kind] */
static int u_leaf[SL_N][MAXINT + 1][K_N];        /* [parent level 0..4][kind] */
static int u_sib[SL_N][MAXINT + 2];              /* sibling of level l (index MAXINT+1: unused) */
static int u_sibleaf[SL_N][MAXINT + 1];
static long g_serial = 0x1000;

static const char *level_cn(int level)
{
    /* CN lengths: the root's differs from the intermediates', the intermediates' are all equal */
    static const char *cn[] = { "MXV Root", "MXV CA L1", "MXV CA L2", "MXV CA L3", "MXV CA L4", "leaf.example.com" };
    return cn[level];
}

static X509_NAME *mk_name(const char *cn)
{
    X509_NAME *n = X509_NAME_new();
    X509_NAME_add_entry_by_txt(n, "C", MBSTRING_ASC, (const unsigned char *) "FI", -1, -1, 0);
    X509_NAME_add_entry_by_txt(n, "O", MBSTRING_ASC, (const unsigned char *) "MXV Test PKI", -1, -1, 0);
    X509_NAME_add_entry_by_txt(n, "CN", MBSTRING_ASC, (const unsigned char *) cn, -1, -1, 0);
    return n;
}

static void add_ext_conf(X509 *x, int nid, const char *val)
{
    X509V3_CTX ctx;
    X509_EXTENSION *e;
    X509V3_set_ctx_nodb(&ctx);
    X509V3_set_ctx(&ctx, x, x, NULL, NULL, 0);
    e = X509V3_EXT_conf_nid(NULL, &ctx, nid, val);
    if (!e)
    {
        die("extension %d '%s'", nid, val);
    }
    X509_add_ext(x, e, -1);
    X509_EXTENSION_free(e);
}

static void key_id(EVP_PKEY *k, unsigned char out[20])
{
    X509 *t = X509_new();
    unsigned int n = 20;
    X509_set_pubkey(t, k);
    if (!X509_pubkey_digest(t, EVP_sha1(), out, &n) || n != 20)
    {
        die("pubkey digest");
    }
    X509_free(t);
}

static void add_ski(X509 *x, EVP_PKEY *k)
{
    unsigned char id[20];
    ASN1_OCTET_STRING *o = ASN1_OCTET_STRING_new();
    key_id(k, id);
    ASN1_OCTET_STRING_set(o, id, 20);
    if (!X509_add1_ext_i2d(x, NID_subject_key_identifier, o, 0, X509V3_ADD_APPEND))
    {
        die("ski");
    }
    ASN1_OCTET_STRING_free(o);
}
static void add_aki(X509 *x, EVP_PKEY *issuer, int corrupt)
{
    unsigned char id[20];
    AUTHORITY_KEYID *a = AUTHORITY_KEYID_new();
    key_id(issuer, id);
    if (corrupt)
    {
        id[3] ^= 0x40;
        id[17] ^= 0x01;
    }
    a->keyid = ASN1_OCTET_STRING_new();
    ASN1_OCTET_STRING_set(a->keyid, id, 20);
    if (!X509_add1_ext_i2d(x, NID_authority_key_identifier, a, 0, X509V3_ADD_APPEND))
    {
        die("aki");
    }
    AUTHORITY_KEYID_free(a);
}
static void add_unknown_ext(X509 *x, int critical)
{
    static const unsigned char val[] = { 0x30, 0x03, 0x02, 0x01, 0x2a };
    ASN1_OBJECT *o = OBJ_txt2obj("1.3.6.1.4.1.55555.3.1", 1);
    ASN1_OCTET_STRING *os = ASN1_OCTET_STRING_new();
    X509_EXTENSION *e;
    ASN1_OCTET_STRING_set(os, val, sizeof(val));
    e = X509_EXTENSION_create_by_OBJ(NULL, o, critical, os);
    if (!e)
    {
        die("unknown ext");
    }
    X509_add_ext(x, e, -1);
    X509_EXTENSION_free(e);
    ASN1_OCTET_STRING_free(os);
    ASN1_OBJECT_free(o);
}

static void set_sig(X509 *x, const unsigned char *p, int n)
{
    const ASN1_BIT_STRING *cs;
    ASN1_BIT_STRING *s;
    X509_get0_signature(&cs, NULL, x);
    s = (ASN1_BIT_STRING *) cs;
    ASN1_STRING_set(s, p, n);
    s->flags &= ~(ASN1_STRING_FLAG_BITS_LEFT | 0x07);
    s->flags |= ASN1_STRING_FLAG_BITS_LEFT;
}

typedef struct {
    const char *subject_cn, *issuer_cn;
    EVP_PKEY *subject_key, *issuer_key;  /* issuer_key = key of the nominal issuer (AKI); signing key may differ */
    int is_ca, is_root, kind, nokeyid;
    int pathlen;                         /* -1 none (roots) */
    X509 *sig_donor_anchor, *sig_donor_parent, *sig_donor_sibling;
    EVP_PKEY *wrong_key, *weak_key;
    int old_no_ku;                       /* CA without keyUsage whose notBefore lies in 1995 (before X.509v3) */
    int root_crit_unk;                   /* a root that carries an unknown critical extension (as its LAST extension) */
} cspec_t;

static X509 *build_cert(const cspec_t *c, unsigned char **der_out, int *derlen_out)
{
    X509 *x = X509_new(), *y;
    X509_NAME *sn, *in;
    ASN1_INTEGER *ser = ASN1_INTEGER_new();
    EVP_PKEY *skey = c->subject_key, *signer = c->issuer_key;
    const EVP_MD *md;
    int kind = c->kind, v1 = (kind == K_V1 && !c->is_root);
    time_t nb = (time_t) (MXV_T0 - 30 * 86400), na = (time_t) (MXV_T0 + 365 * 86400);
    const unsigned char *cp;
    unsigned char *der = NULL;
    int derlen;
    char bc[64];

    if (c->is_root)
    {
        kind = K_GOOD;
    }
    if (kind == K_WEAKKEY)
    {
        skey = c->weak_key;
    }
    X509_set_version(x, v1 ? 0 : 2);
    ASN1_INTEGER_set(ser, ++g_serial);
    X509_set_serialNumber(x, ser);
    ASN1_INTEGER_free(ser);
    sn = mk_name(c->subject_cn);
    in = mk_name((kind == K_DN_MISMATCH || kind == K_SC_ANCHOR || kind == K_SC_PARENT) ? "Nobody" : c->issuer_cn);
    X509_set_subject_name(x, sn);
    X509_set_issuer_name(x, in);
    X509_NAME_free(sn);
    X509_NAME_free(in);
    if (kind == K_EXPIRED)
    {
        nb = (time_t) (MXV_T0 - 400 * 86400);
        na = (time_t) (MXV_T0 - 2 * 86400);
    }
    else if (kind == K_NOTYET)
    {
        nb = (time_t) (MXV_T0 + 2 * 86400);
        na = (time_t) (MXV_T0 + 400 * 86400);
    }
    if (c->old_no_ku)
    {
        nb = (time_t) 789004800;   /* 1995-01-02 */
    }
    ASN1_TIME_set(X509_getm_notBefore(x), nb);
    ASN1_TIME_set(X509_getm_notAfter(x), na);
    X509_set_pubkey(x, skey);

    if (!v1)
    {
        if (c->is_ca)
        {
            if (kind == K_CA_FALSE)
            {
                add_ext_conf(x, NID_basic_constraints, "critical,CA:FALSE");
            }
            else if (kind != K_BC_ABSENT)
            {
                int pl = c->pathlen;
                if (kind == K_PL0) pl = 0;
                if (kind == K_PL1) pl = 1;
                if (pl >= 0) snprintf(bc, sizeof(bc), "critical,CA:TRUE,pathlen:%d", pl);
                else snprintf(bc, sizeof(bc), "critical,CA:TRUE");
                add_ext_conf(x, NID_basic_constraints, bc);
            }
            if (kind == K_KU_NOCERTSIGN)
            {
                add_ext_conf(x, NID_key_usage, "critical,digitalSignature,cRLSign");
            }
            else if (kind != K_KU_ABSENT && !c->old_no_ku)
            {
                add_ext_conf(x, NID_key_usage, "critical,digitalSignature,keyCertSign,cRLSign");
            }
        }
        else
        {
            add_ext_conf(x, NID_basic_constraints, "CA:FALSE");
            add_ext_conf(x, NID_key_usage, "critical,digitalSignature,keyEncipherment");
            add_ext_conf(x, NID_subject_alt_name, "DNS:leaf.example.com");
            if (kind == K_GOOD_EKU)
            {
                add_ext_conf(x, NID_ext_key_usage, "serverAuth,clientAuth");
            }
            else if (kind == K_EKU_CRIT_OTHER)
            {
                add_ext_conf(x, NID_ext_key_usage, "critical,codeSigning");
            }
        }
        if (!c->nokeyid)
        {
            add_ski(x, skey);
            if (!c->is_root && kind != K_AKI_ABSENT && kind != K_SELFSIGNED)
            {
                add_aki(x, c->issuer_key, kind == K_AKI_BAD);
            }
        }
        if (c->root_crit_unk)
        {
            add_unknown_ext(x, 1);
        }
        if (kind == K_GOOD_UNKEXT)
        {
            add_unknown_ext(x, 0);
        }
        else if (kind == K_CRIT_UNK)
        {
            add_unknown_ext(x, 1);
        }
    }
    if (kind == K_SIG_WRONGKEY)
    {
        signer = c->wrong_key;
    }
    if (kind == K_SELFSIGNED)
    {
        X509_NAME *me = mk_name(c->subject_cn);
        X509_set_issuer_name(x, me);
        X509_NAME_free(me);
        signer = skey;
    }
    md = md_for(signer);
    if (md && kind == K_SHA1) md = EVP_sha1();
    if (md && kind == K_MD5) md = EVP_md5();
    if (md && kind == K_ALG_WRONGHASH) md = EVP_sha384();
    if (kind == K_GOOD_PSS)
    {
        EVP_MD_CTX *mc = EVP_MD_CTX_new();
        EVP_PKEY_CTX *pc = NULL;
        if (!EVP_DigestSignInit(mc, &pc, EVP_sha256(), NULL, signer) ||
            EVP_PKEY_CTX_set_rsa_padding(pc, RSA_PKCS1_PSS_PADDING) <= 0 ||
            EVP_PKEY_CTX_set_rsa_pss_saltlen(pc, 32) <= 0 ||
            !X509_sign_ctx(x, mc))
        {
            die("RSA-PSS X509_sign_ctx");
        }
        EVP_MD_CTX_free(mc);
    }
    else if (!X509_sign(x, signer, md))
    {
        die("X509_sign kind %s", kind_tab[kind].name);
    }
    switch (kind)
    {
    case K_SIG_BITFLIP:
    {
        const ASN1_BIT_STRING *cs;
        unsigned char *tmp;
        int n;
        X509_get0_signature(&cs, NULL, x);
        n = ASN1_STRING_length(cs);
        tmp = h_malloc((size_t) n);
        memcpy(tmp, ASN1_STRING_get0_data(cs), (size_t) n);
        tmp[n / 2 + 3 < n ? n / 2 + 3 : n - 1] ^= 0x10;
        set_sig(x, tmp, n);
        free(tmp);
        break;
    }
    case K_SC_ANCHOR: case K_SC_ANCHOR_KEEPDN: case K_SC_PARENT: case K_SC_PARENT_KEEPDN: case K_SC_SIBLING:
    {
        X509 *donor = (kind == K_SC_ANCHOR || kind == K_SC_ANCHOR_KEEPDN) ? c->sig_donor_anchor :
                      (kind == K_SC_SIBLING) ? c->sig_donor_sibling : c->sig_donor_parent;
        const ASN1_BIT_STRING *ds;
        if (!donor)
        {
            die("no signature donor for kind %s", kind_tab[kind].name);
        }
        X509_get0_signature(&ds, NULL, donor);
        set_sig(x, ASN1_STRING_get0_data(ds), ASN1_STRING_length(ds));
        break;
    }
    case K_ALG_MISMATCH:
    {
        const X509_ALGOR *ca;
        int other = EVP_PKEY_base_id(signer) == EVP_PKEY_RSA ? NID_sha384WithRSAEncryption :
                    EVP_PKEY_base_id(signer) == EVP_PKEY_EC ? (EVP_PKEY_bits(signer) > 256 ? NID_ecdsa_with_SHA256 : NID_ecdsa_with_SHA384) :
                    NID_ecdsa_with_SHA256;
        X509_get0_signature(NULL, &ca, x);
        X509_ALGOR_set0((X509_ALGOR *) ca, OBJ_nid2obj(other), EVP_PKEY_base_id(signer) == EVP_PKEY_RSA ? V_ASN1_NULL : V_ASN1_UNDEF, NULL);
        break;
    }
    case K_ALG_WRONGHASH:
    {
        /* both AlgorithmIdentifiers say SHA-384, the signature is over the SHA-256 digest */
        unsigned char *tbs = NULL, sig[600];
        size_t siglen = sizeof(sig);
        int tl = i2d_re_X509_tbs(x, &tbs);
        EVP_MD_CTX *mc = EVP_MD_CTX_new();
        if (tl <= 0 || !EVP_DigestSignInit(mc, NULL, EVP_sha256(), NULL, signer) || !EVP_DigestSign(mc, sig, &siglen, tbs, (size_t) tl))
        {
            die("wrong-hash signature");
        }
        set_sig(x, sig, (int) siglen);
        EVP_MD_CTX_free(mc);
        OPENSSL_free(tbs);
        break;
    }
    default:
        break;
    }
    derlen = i2d_X509(x, &der);
    if (derlen <= 0)
    {
        die("i2d_X509");
    }
    cp = der;
    y = d2i_X509(NULL, &cp, derlen);     /* the reference sees exactly the bytes MatrixSSL sees */
    if (!y)
    {
        die("d2i of generated certificate (kind %s)", kind_tab[kind].name);
    }
    X509_free(x);
    *der_out = h_malloc((size_t) derlen);
    memcpy(*der_out, der, (size_t) derlen);
    OPENSSL_free(der);
    *derlen_out = derlen;
    return y;
}

static int add_u(int slice, int level, int parent, int kind, X509 *x, unsigned char *der, int derlen)
{
    if (nU >= MAXU)
    {
        die("universe too large");
    }
    memset(&U[nU], 0, sizeof(U[nU]));
    U[nU].slice = slice; U[nU].level = level; U[nU].parent = parent; U[nU].kind = kind;
    U[nU].x = x; U[nU].der = der; U[nU].derlen = derlen;
    return nU++;
}

static int g_built[SL_N];
static void build_slice(int sl)
{
    int l, k, r, maxint = slice_max_int(sl), nokid = (sl == SL_NOKID);
    cspec_t c;
    unsigned char *der;
    int derlen;
    X509 *x;
    char cn[64];

    if (g_built[sl])
    {
        return;
    }
    g_built[sl] = 1;
    slice_keys(sl);
    memset(u_ca[sl], -1, sizeof(u_ca[sl]));
    memset(u_leaf[sl], -1, sizeof(u_leaf[sl]));
    /* roots */
    for (r = 0; r < R_N; r++)
    {
        memset(&c, 0, sizeof(c));
        c.subject_cn = c.issuer_cn = level_cn(0);
        c.subject_key = c.issuer_key = g_key[sl][r == R_SECOND ? KS_ROOT2 : KS_ROOT];
        c.is_ca = c.is_root = 1;
        c.nokeyid = nokid;
        c.pathlen = r == R_PL0 ? 0 : r == R_PL1 ? 1 : -1;
        c.root_crit_unk = r == R_CRIT;
        x = build_cert(&c, &der, &derlen);
        u_root[sl][r] = add_u(sl, LV_ROOT, -1, r, x, der, derlen);
    }
    /* intermediates, level by level (signature donors are the good certificates one level up) */
    for (l = 1; l <= maxint; l++)
    {
        X509 *parent = (l == 1) ? U[u_root[sl][R_MAIN]].x : U[u_ca[sl][l - 1][K_GOOD]].x;
        /* sibling first (signature donor) */
        memset(&c, 0, sizeof(c));
        snprintf(cn, sizeof(cn), "MXV Sibling L%d", l);
        c.subject_cn = cn; c.issuer_cn = level_cn(l - 1);
        c.subject_key = g_key[sl][KS_SIB]; c.issuer_key = g_key[sl][KS_ROOT + l - 1];
        c.is_ca = 1; c.nokeyid = nokid; c.pathlen = -1; c.kind = K_GOOD;
        x = build_cert(&c, &der, &derlen);
        u_sib[sl][l] = add_u(sl, l, -1, K_GOOD, x, der, derlen);
        U[u_sib[sl][l]].sibling = 1;
        for (k = 0; k < K_N; k++)
        {
            if (!(kind_tab[k].where & F_CA) || !kind_in_slice(sl, k))
            {
                continue;
            }
            if (l == 1 && (k == K_SC_PARENT || k == K_SC_PARENT_KEEPDN))
            {
                continue;               /* at level 1 the parent is the anchor */
            }
            memset(&c, 0, sizeof(c));
            c.subject_cn = level_cn(l); c.issuer_cn = level_cn(l - 1);
            c.subject_key = g_key[sl][KS_ROOT + l]; c.issuer_key = g_key[sl][KS_ROOT + l - 1];
            c.is_ca = 1; c.nokeyid = nokid; c.pathlen = -1; c.kind = k;
            c.sig_donor_anchor = U[u_root[sl][R_MAIN]].x;
            c.sig_donor_parent = parent;
            c.sig_donor_sibling = U[u_sib[sl][l]].x;
            c.wrong_key = g_key[sl][KS_ATT];
            c.weak_key = g_key[sl][KS_WEAK];
            x = build_cert(&c, &der, &derlen);
            u_ca[sl][l][k] = add_u(sl, l, -1, k, x, der, derlen);
        }
    }
    /* leaves under every level */
    for (l = 0; l <= maxint; l++)
    {
        X509 *parent = (l == 0) ? U[u_root[sl][R_MAIN]].x : U[u_ca[sl][l][K_GOOD]].x;
        memset(&c, 0, sizeof(c));
        c.subject_cn = "sibling.example.com"; c.issuer_cn = level_cn(l);
        c.subject_key = g_key[sl][KS_SIB]; c.issuer_key = g_key[sl][KS_ROOT + l];
        c.nokeyid = nokid; c.pathlen = -1; c.kind = K_GOOD;
        x = build_cert(&c, &der, &derlen);
        u_sibleaf[sl][l] = add_u(sl, LV_LEAF, l, K_GOOD, x, der, derlen);
        U[u_sibleaf[sl][l]].sibling = 1;
        for (k = 0; k < K_N; k++)
        {
            if (!(kind_tab[k].where & F_LEAF) || !kind_in_slice(sl, k))
            {
                continue;
            }
            if (l == 0 && (k == K_SC_PARENT || k == K_SC_PARENT_KEEPDN))
            {
                continue;
            }
            memset(&c, 0, sizeof(c));
            c.subject_cn = level_cn(LV_LEAF); c.issuer_cn = level_cn(l);
            c.subject_key = g_key[sl][KS_LEAF]; c.issuer_key = g_key[sl][KS_ROOT + l];
            c.nokeyid = nokid; c.pathlen = -1; c.kind = k;
            c.sig_donor_anchor = U[u_root[sl][R_MAIN]].x;
            c.sig_donor_parent = parent;
            c.sig_donor_sibling = U[u_sibleaf[sl][l]].x;
            c.wrong_key = g_key[sl][KS_ATT];
            c.weak_key = g_key[sl][KS_WEAK];
            x = build_cert(&c, &der, &derlen);
            u_leaf[sl][l][k] = add_u(sl, LV_LEAF, l, k, x, der, derlen);
        }
    }
}

static void u_describe(int id, char *out, size_t n)
{
    const ucert_t *u = &U[id];
    if (u->level == LV_ROOT) snprintf(out, n, "%s", root_name[u->kind]);
    else if (u->level == LV_LEAF) snprintf(out, n, "leaf<-L%d[%s]", u->parent, kind_tab[u->kind].name);
    else snprintf(out, n, "CA%d[%s]", u->level, kind_tab[u->kind].name);
}

static void u_dump_pem(int id, const char *role)
{
    char d[96];
    if (!g_dump)
    {
        return;
    }
    u_describe(id, d, sizeof(d));
    fprintf(stderr, "--- %s: %s (universe #%d, %d bytes DER)\n", role, d, id, U[id].derlen);
    PEM_write_X509(stderr, U[id].x);
}

/* MatrixSSL-parsed copy (which: 0 chain, 1 anchor); NULL if the parser refuses the certificate */
static psX509Cert_t *u_parsed(int id, int which)
{
    ucert_t *u = &U[id];
    if (!u->pc_done[which])
    {
        u->pc_done[which] = 1;
        u->pc_rc[which] = psX509ParseCert(NULL, u->der, (uint32) u->derlen, &u->pc[which], which == 1 ? CERT_ALLOW_BUNDLE_PARTIAL_PARSE : 0);
        if (which == 1 && u->pc_rc[which] < 0 && u->pc[which] && u->pc[which]->parseStatus != PS_X509_PARSE_SUCCESS && u->pc[which]->parseStatus != PS_X509_PARSE_FAIL)
        {
            /* trust anchors are loaded with CERT_ALLOW_BUNDLE_PARTIAL_PARSE (matrixSslAddTrustAnchors): an entry the parser
               REJECTED stays in the CA list, partly filled in, with its parseStatus: the validator must not use it */
            DUMPF("    MatrixSSL parser rejects anchor #%d (parseStatus %d): kept in the CA list as the key loader does\n", id, (int) u->pc[which]->parseStatus);
            u->pc_flags[which] = u->pc[which]->authFailFlags;
            u->pc_sig[which] = h_malloc(1);
        }
        else
        if (u->pc_rc[which] < 0)
        {
            if (u->pc[which])
            {
                DUMPF("    MatrixSSL parser refuses universe #%d: rc %d parseStatus %d\n", id, u->pc_rc[which], (int) u->pc[which]->parseStatus);
                psX509FreeCert(u->pc[which]);
            }
            u->pc[which] = NULL;
        }
        else
        {
            u->pc_flags[which] = u->pc[which]->authFailFlags;
            u->pc_sig[which] = h_malloc(u->pc[which]->signatureLen ? u->pc[which]->signatureLen : 1);
            memcpy(u->pc_sig[which], u->pc[which]->signature, u->pc[which]->signatureLen);
        }
    }
    if (u->pc[which])
    {
        u->pc[which]->next = NULL;
        u->pc[which]->authStatus = 0;
        u->pc[which]->authFailFlags = u->pc_flags[which];
        memcpy(u->pc[which]->signature, u->pc_sig[which], u->pc[which]->signatureLen);
# ifdef USE_CRL
        u->pc[which]->revokedStatus = 0;
# endif
    }
    return u->pc[which];
}

/* drop the cached parse: the next u_parsed() starts from a fresh parse, as a replay does */
static void u_forget(int id, int which)
{
    ucert_t *u = &U[id];
    if (u->pc_done[which])
    {
        if (u->pc[which])
        {
            u->pc[which]->next = NULL;
            psX509FreeCert(u->pc[which]);
            free(u->pc_sig[which]);
            u->pc_sig[which] = NULL;
        }
        u->pc[which] = NULL;
        u->pc_done[which] = 0;
    }
}

#endif
