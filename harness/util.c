#include "mxv.h"
#include <stdarg.h>

void buf_init(buf_t *b) { b->p = NULL; b->len = b->cap = 0; }
void buf_free(buf_t *b) { free(b->p); b->p = NULL; b->len = b->cap = 0; }
void buf_clear(buf_t *b) { b->len = 0; }
void buf_add(buf_t *b, const void *p, size_t n)
{
    if (b->len + n + 1 > b->cap)
    {
        size_t nc = b->cap ? b->cap * 2 : 256;
        while (nc < b->len + n + 1)
        {
            nc *= 2;
        }
        b->p = h_realloc(b->p, nc);
        if (!b->p)
        {
            fprintf(stderr, "harness: out of memory\n");
            abort();
        }
        b->cap = nc;
    }
    if (n)
    {
        memcpy(b->p + b->len, p, n);
    }
    b->len += n;
    b->p[b->len] = 0;
}
void buf_addf(buf_t *b, const char *fmt, ...)
{
    char tmp[1024];
    va_list ap;
    int n;
    va_start(ap, fmt);
    n = vsnprintf(tmp, sizeof(tmp), fmt, ap);
    va_end(ap);
    if (n < 0)
    {
        return;
    }
    if ((size_t) n >= sizeof(tmp))
    {
        n = sizeof(tmp) - 1;
    }
    buf_add(b, tmp, (size_t) n);
}
uint64_t fnv1a(const void *p, size_t n, uint64_t h)
{
    const unsigned char *c = p;
    size_t i;
    for (i = 0; i < n; i++)
    {
        h ^= c[i];
        h *= 1099511628211ULL;
    }
    return h;
}
void hexstr(char *out, const unsigned char *p, size_t n)
{
    static const char d[] = "0123456789abcdef";
    size_t i;
    for (i = 0; i < n; i++)
    {
        out[2 * i] = d[p[i] >> 4];
        out[2 * i + 1] = d[p[i] & 15];
    }
    out[2 * n] = 0;
}
static int hv(char c)
{
    if (c >= '0' && c <= '9') return c - '0';
    if (c >= 'a' && c <= 'f') return c - 'a' + 10;
    if (c >= 'A' && c <= 'F') return c - 'A' + 10;
    return -1;
}
int unhex(unsigned char *out, const char *s, size_t max)
{
    size_t n = 0;
    while (s[0] && s[1] && n < max)
    {
        int a = hv(s[0]), b = hv(s[1]);
        if (a < 0 || b < 0)
        {
            break;
        }
        out[n++] = (unsigned char) (a * 16 + b);
        s += 2;
    }
    return (int) n;
}
void json_str(FILE *f, const char *s)
{
    fputc('"', f);
    for (; *s; s++)
    {
        unsigned char c = (unsigned char) *s;
        if (c == '"' || c == '\\')
        {
            fputc('\\', f); fputc(c, f);
        }
        else if (c < 0x20 || c >= 0x7f)
        {
            fprintf(f, "\\u%04x", c);
        }
        else
        {
            fputc(c, f);
        }
    }
    fputc('"', f);
}

/* resolve a code address (an allocation site) to the innermost library function name with addr2line (drivers are linked -no-pie) */
#include <unistd.h>
const char *mx_addr_func(void *addr, char *buf, size_t n)
{
    /* resolve the allocation site to a function name with addr2line (PIE: subtract the load base) */
    unsigned long base = 0; /* drivers are linked -no-pie: addresses are absolute */
    char cmd[400], exe[256];
    FILE *p;
    ssize_t l;
    l = readlink("/proc/self/exe", exe, sizeof(exe) - 1);
    if (l <= 0)
    {
        snprintf(buf, n, "?");
        return buf;
    }
    exe[l] = 0;
    snprintf(cmd, sizeof(cmd), "addr2line -f -i -e %s 0x%lx 2>/dev/null", exe, (unsigned long) addr - base - 1);
    p = popen(cmd, "r");
    snprintf(buf, n, "?");
    if (p)
    {
        char line[256];
        /* with -i the innermost frame comes first; skip allocator shims */
        while (fgets(line, sizeof(line), p))
        {
            line[strcspn(line, "\n")] = 0;
            if (line[0] && line[0] != '/' && line[0] != '?' && !strstr(line, "psMalloc") && !strstr(line, "__wrap"))
            {
                snprintf(buf, n, "%s", line);
                break;
            }
        }
        pclose(p);
    }
    return buf;
}
