/* drv_c18 - C18: TLS behaviour depends on the bytes received, not on how they are chunked.
 *
 * For each scenario (full / resumed / client-auth / failing handshake + three application
 * writes each way, TLS 1.1/1.2/1.3) a reference execution delivers each pending flight in
 * one piece.  Then every member of a set of chunking schedules is executed from scratch
 * (entropy and clock pinned): every single cut position of each direction's byte stream,
 * every pair of cuts in a window around every record boundary, byte-at-a-time,
 * record-aligned, and every single / windowed-pair partial-send (matrixSslSentData(n))
 * position.  Oracle: normalised observations equal the reference's, byte for byte. */
#include "mxv.h"
#include "wire.h"
#include <sys/mman.h>
#include <unistd.h>
#include <sys/wait.h>

static int thorough;

typedef struct { int ver, kx; uint16_t suite; int cauth, resume, bad, tickets; const char *name; int pipeline; } scen_t;
static const scen_t scens[] = {
    { V_TLS12, KX_PSK, 0, 0, 0, 0, 0, "tls12-psk-full" },
    { V_TLS11, KX_PSK, 0, 0, 0, 0, 0, "tls11-psk-full" },
    { V_TLS13, KX_13_PSK, 0, 0, 0, 0, 0, "tls13-psk-full" },
    { V_TLS12, KX_PSK, 0, 0, 1, 0, 0, "tls12-psk-resumed" },
    { V_TLS12, KX_RSA, TLS_RSA_WITH_AES_128_GCM_SHA256, 1, 0, 0, 0, "tls12-rsa-gcm-clientauth" },
    { V_TLS13, KX_13_ECDSA, 0, 1, 0, 0, 0, "tls13-ecdsa-clientauth" },
    { V_TLS12, KX_ECDHE_RSA, 0, 0, 0, 1, 0, "tls12-ecdhe-badcert-failing" },
    { V_TLS13, KX_13_RSA, 0, 0, 0, 1, 0, "tls13-rsa-badcert-failing" },
    { V_TLS12, KX_ECDHE_RSA, 0, 0, 1, 0, 1, "tls12-ecdhe-ticket-resumed" },
    { V_TLS13, KX_13_RSA, 0, 0, 1, 0, 1, "tls13-rsa-psk-resumed" },
    { V_TLS11, KX_RSA, 0, 0, 0, 0, 0, "tls11-rsa-full" },
    /* pipelining applications: each side writes its three messages the moment ITS OWN handshake completes, so the last
       handshake flight and application records travel back to back (one receive call in the reference run, split in every
       other schedule), and the receiver still has output of its own pending (NewSessionTicket) when they arrive */
    { V_TLS13, KX_13_RSA, 0, 0, 0, 0, 1, "tls13-rsa-tickets-pipelined", 1 },
    { V_TLS13, KX_13_PSK, 0, 0, 0, 0, 0, "tls13-psk-pipelined", 1 },
    { V_TLS12, KX_PSK, 0, 0, 1, 0, 0, "tls12-psk-resumed-pipelined", 1 },
    { V_TLS12, KX_ECDHE_RSA, 0, 0, 0, 0, 1, "tls12-ecdhe-tickets-pipelined", 1 },
    /* a transport that blocks: each side writes 1000 bytes, the transport takes what the schedule lets it take (one send
       call), and the application writes the next 1000 bytes while the rest is still pending in the output buffer (the
       free space behind pending bytes decides whether the buffer grows) */
    { V_TLS13, KX_13_PSK, 0, 0, 0, 0, 0, "tls13-psk-write-behind-pending-output", 2 },
    { V_TLS12, KX_PSK, 0, 0, 0, 0, 0, "tls12-psk-write-behind-pending-output", 2 },
    { V_TLS11, KX_PSK, 0, 0, 0, 0, 0, "tls11-psk-write-behind-pending-output", 2 },
    { V_TLS12, KX_RSA, TLS_RSA_WITH_AES_128_GCM_SHA256, 0, 0, 0, 0, "tls12-rsa-gcm-write-behind-pending-output", 2 },
    /* an application that says one thing and hangs up: the side whose handshake completes first writes one message and
       closes at once, so the last handshake flight, an application record and the close_notify alert travel back to back
       (one receive call in the reference run) */
    { V_TLS12, KX_PSK, 0, 0, 0, 0, 0, "tls12-psk-say-and-close", 3 },
    { V_TLS13, KX_13_PSK, 0, 0, 0, 0, 0, "tls13-psk-say-and-close", 3 },
    { V_TLS12, KX_PSK, 0, 0, 1, 0, 0, "tls12-psk-resumed-say-and-close", 3 },
    { V_TLS13, KX_13_RSA, 0, 0, 0, 0, 1, "tls13-rsa-tickets-say-and-close", 3 },
    /* ... and one that hangs up without a word: the closure alert directly behind the last handshake flight */
    { V_TLS12, KX_PSK, 0, 0, 0, 0, 0, "tls12-psk-close-at-once", 4 },
    { V_TLS12, KX_ECDHE_RSA, 0, 0, 0, 0, 1, "tls12-ecdhe-tickets-close-at-once", 4 },
    { V_TLS13, KX_13_PSK, 0, 0, 0, 0, 0, "tls13-psk-close-at-once", 4 },
    /* a client that hangs up the moment it has written its second flight (before the handshake completes on its side) */
    { V_TLS12, KX_PSK, 0, 0, 0, 0, 0, "tls12-psk-client-hangs-up-behind-its-finished", 5 },
    { V_TLS12, KX_RSA, TLS_RSA_WITH_AES_128_GCM_SHA256, 1, 0, 0, 0, "tls12-rsa-gcm-clientauth-client-hangs-up-behind-its-finished", 5 },
    { V_TLS13, KX_13_PSK, 0, 0, 0, 0, 0, "tls13-psk-client-hangs-up-behind-its-finished", 5 },
    /* the client's second flight is preceded by the compatibility ChangeCipherSpec other TLS 1.3 stacks send: in the reference
       run it shares a receive call with what follows (Finished, or the client's fatal alert in the failing scenario) */
    { V_TLS13, KX_13_PSK, 0, 0, 0, 0, 0, "tls13-psk-full-compat-ccs", 6 },
    { V_TLS13, KX_13_RSA, 0, 0, 0, 1, 0, "tls13-rsa-badcert-failing-compat-ccs", 6 },
    { V_TLS13, KX_13_ECDSA, 0, 1, 0, 0, 0, "tls13-ecdsa-clientauth-compat-ccs", 6 },
};
#define NSCEN ((int) (sizeof(scens) / sizeof(scens[0])))

#define MAXSTREAM 70000
#define MAXB 96
typedef struct {
    int ok;
    int slen[2];
    unsigned char stream[2][MAXSTREAM];
    int nb[2], bound[2][MAXB];       /* record boundaries (offsets where a record starts) */
    int dlen[2];
    uint64_t dhash[2];
    int mid_dlen[2];                 /* pipelined scenarios: plaintext delivered when everything sent so far has been received and nobody has anything left to send (before the closure) */
    uint64_t mid_dhash[2];
    int complete[2], resumed[2];
    uint64_t alerts_hash;
    uint64_t entropy_draws, entropy_bytes;
    int comp_at_first_delivery[2];
    int next_hello_len;              /* length of the ClientHello of the NEXT connection made with the same sslSessionId_t: tells whether (and what) the client stored for resumption */
    int nflights[2], flight_off[2][64];
} obs_t;
static obs_t *refs; /* shared */

enum { M_CUTS = 0, M_BYTEWISE, M_RECORD_ALIGNED, M_PSEND };
typedef struct {
    int mode;
    int dir;          /* direction the cuts apply to */
    int ncut, cut[3]; /* absolute stream offsets */
} sched_t;

typedef struct { buf_t out[2]; int fed[2]; int sent_pos[2]; } run_t;

static int app_len(int k)
{
    static const int q[3] = { 1, 300, 16385 }, t[3] = { 1, 16384, 40000 };
    return thorough ? t[k] : q[k];
}

static int collect_once;
/* drain side d's output honouring partial-send cuts; append to stream */
static void collect_side(world_t *w, run_t *R, int d, const sched_t *sc)
{
    side_t *s = &w->s[d];
    unsigned char *out;
    int32 n;
    int guard = 0;
    while ((n = matrixSslGetOutdata(s->ssl, &out)) > 0 && guard++ < 100000)
    {
        int take = n, i, rc;
        int base = (int) R->out[d].len;
        if (sc->mode == M_PSEND && sc->dir == d)
        {
            for (i = 0; i < sc->ncut; i++)
            {
                if (sc->cut[i] > base && sc->cut[i] < base + n)
                {
                    take = sc->cut[i] - base;
                    break;
                }
            }
        }
        else if (sc->mode == M_BYTEWISE && sc->dir == d + 2)
        {
            take = 1; /* byte-at-a-time partial sends */
        }
        buf_add(&R->out[d], out, (size_t) take);
        rc = matrixSslSentData(s->ssl, (uint32) take);
        if (rc == MATRIXSSL_HANDSHAKE_COMPLETE)
        {
            s->complete = 1;
        }
        else if (rc == MATRIXSSL_REQUEST_CLOSE)
        {
            s->closed = 1;
        }
        else if (rc < 0)
        {
            world_tracef(w, "%d:sent-err %d\n", d, rc);
        }
        if (collect_once)
        {
            break;   /* the transport took this much and now blocks */
        }
    }
}

/* deliver pending bytes of direction d to side 1-d, split at the schedule's cuts */
static int deliver_dir(world_t *w, run_t *R, int d, const sched_t *sc)
{
    int from = R->fed[d], to = (int) R->out[d].len, n = 0;
    while (from < to)
    {
        int end = to, i;
        if (sc->mode == M_BYTEWISE && sc->dir == d)
        {
            end = from + 1;
        }
        else if (sc->mode == M_RECORD_ALIGNED && sc->dir == d)
        {
            if (to - from >= 5)
            {
                int rl = 5 + ((R->out[d].p[from + 3] << 8) | R->out[d].p[from + 4]);
                if (from + rl < to)
                {
                    end = from + rl;
                }
            }
        }
        else if (sc->mode == M_CUTS && sc->dir == d)
        {
            for (i = 0; i < sc->ncut; i++)
            {
                if (sc->cut[i] > from && sc->cut[i] < end)
                {
                    end = sc->cut[i];
                }
            }
        }
        world_feed(w, 1 - d, R->out[d].p + from, end - from);
        from = end;
        n++;
        if (w->s[1 - d].err_rc < 0)
        {
            from = to; /* the application stops feeding a failed session */
        }
    }
    R->fed[d] = to;
    return n;
}

static int pipeline_on, app_written[2], say_and_close, closer, hangup_after_burst, bursts[2], compat_ccs;
static void app_messages(world_t *w, int d)
{
    static unsigned char msg[40100];
    int k, i;
    /* small messages: the whole pipelined flight fits into one receive buffer, so that in the reference run the records
       behind the one being acknowledged are already complete in the session's input buffer */
    static const int plen[3] = { 6, 5, 1 };
    for (k = 0; k < 3; k++)
    {
        int len = plen[k];
        for (i = 0; i < len; i++)
        {
            msg[i] = (unsigned char) (k * 17 + d * 91 + i * 3);
        }
        world_app_send(w, d, msg, len);
    }
}

static int quiesce(world_t *w, run_t *R, const sched_t *sc)
{
    int guard = 0, progress = 1;
    while (progress && guard++ < 500)
    {
        int d;
        progress = 0;
        for (d = 0; d < 2; d++)
        {
            size_t before = R->out[d].len;
            collect_side(w, R, d, sc);
            if (R->out[d].len > before)
            {
                bursts[d]++;
                if (compat_ccs && d == 0 && bursts[0] == 2)
                {
                    /* the middlebox-compatibility ChangeCipherSpec other TLS 1.3 stacks send in front of their second flight
                       (RFC 8446 D.4; the receiver must ignore it): inserted at the start of this burst */
                    static const unsigned char ccs[6] = { 20, 3, 3, 0, 1, 1 };
                    size_t tail = R->out[d].len - before;
                    buf_add(&R->out[d], ccs, 6);
                    memmove(R->out[d].p + before + 6, R->out[d].p + before, tail);
                    memcpy(R->out[d].p + before, ccs, 6);
                }
            }
            if (hangup_after_burst && d == 0 && bursts[0] == hangup_after_burst && closer < 0 && w->s[0].err_rc >= 0)
            {
                /* the client hangs up the moment its second flight is written: the closure alert directly behind it */
                closer = 0;
                world_close(w, 0);
                collect_side(w, R, d, sc);
            }
            if (pipeline_on && !app_written[d] && world_is_complete(w, d) && w->s[d].err_rc >= 0)
            {
                app_written[d] = 1;
                if (say_and_close)
                {
                    if (closer < 0)
                    {
                        static const unsigned char bye[3] = { 'b', 'y', 'e' };
                        closer = d;
                        if (say_and_close == 1)
                        {
                            world_app_send(w, d, bye, 3);
                        }
                        world_close(w, d);
                    }
                }
                else
                {
                    app_messages(w, d);
                }
                collect_side(w, R, d, sc);
            }
            if ((int) R->out[d].len > R->fed[d])
            {
                deliver_dir(w, R, d, sc);
                progress = 1;
            }
        }
    }
    return guard;
}

static void run_scenario(int si, const sched_t *sc, obs_t *o)
{
    const scen_t *S = &scens[si];
    wcfg_t c;
    world_t w;
    run_t R;
    static unsigned char msg[40100];
    sched_t none = { M_CUTS, 0, 0, { 0, 0, 0 } };
    int d, k;

    memset(o, 0, sizeof(*o));
    memset(&c, 0, sizeof(c));
    c.ver = S->ver; c.kx = S->kx; c.suite = S->suite; c.client_auth = S->cauth; c.bad_server_cert = S->bad; c.tickets = S->tickets;
    if (world_init(&w, &c) < 0)
    {
        return;
    }
    w.no_autocollect = 1;
    memset(&R, 0, sizeof(R));
    buf_init(&R.out[0]); buf_init(&R.out[1]);
    if (S->resume)
    {
        /* first connection: unchunked, establishes the session to resume */
        quiesce(&w, &R, &none);
        if (!(world_is_complete(&w, 0) && world_is_complete(&w, 1)))
        {
            return;
        }
        world_free_sessions(&w);
        if (world_new_sessions(&w) < 0)
        {
            return;
        }
        buf_clear(&R.out[0]); buf_clear(&R.out[1]);
        R.fed[0] = R.fed[1] = 0;
    }
    pipeline_on = S->pipeline == 1 || (S->pipeline >= 3 && S->pipeline <= 5);
    say_and_close = S->pipeline == 3 ? 1 : S->pipeline == 4 ? 2 : 0;
    closer = -1;
    hangup_after_burst = S->pipeline == 5 ? 2 : 0;
    compat_ccs = S->pipeline == 6;
    bursts[0] = bursts[1] = 0;
    app_written[0] = app_written[1] = 0;
    if (S->pipeline == 2)
    {
        uint64_t e0 = env_entropy_draws, b0 = env_entropy_bytes;
        quiesce(&w, &R, sc);
        if (world_is_complete(&w, 0) && world_is_complete(&w, 1))
        {
            for (d = 0; d < 2; d++)
            {
                int i;
                for (k = 0; k < 2; k++)
                {
                    for (i = 0; i < 1000; i++)
                    {
                        msg[i] = (unsigned char) (k * 17 + d * 91 + i * 3);
                    }
                    world_app_send(&w, d, msg, 1000);
                    if (k == 0)
                    {
                        collect_once = 1;
                        collect_side(&w, &R, d, sc);
                        collect_once = 0;
                    }
                }
                quiesce(&w, &R, sc);
            }
            world_close(&w, 0);
            quiesce(&w, &R, sc);
        }
        o->entropy_draws = env_entropy_draws - e0;
        o->entropy_bytes = env_entropy_bytes - b0;
    }
    else if (S->pipeline && S->pipeline != 6)
    {
        uint64_t e0 = env_entropy_draws, b0 = env_entropy_bytes;
        quiesce(&w, &R, sc);
        for (d = 0; d < 2; d++)
        {
            o->mid_dlen[d] = (int) w.s[d].delivered.len;
            o->mid_dhash[d] = fnv1a(w.s[d].delivered.p, w.s[d].delivered.len, FNV0);
        }
        if (world_is_complete(&w, 0) && world_is_complete(&w, 1) && !say_and_close && !hangup_after_burst)
        {
            world_close(&w, 0);
            quiesce(&w, &R, sc);
        }
        o->entropy_draws = env_entropy_draws - e0;
        o->entropy_bytes = env_entropy_bytes - b0;
        pipeline_on = 0;
        say_and_close = 0;
        hangup_after_burst = 0;
    }
    else
    {
        uint64_t e0 = env_entropy_draws, b0 = env_entropy_bytes;
        quiesce(&w, &R, sc);
        if (world_is_complete(&w, 0) && world_is_complete(&w, 1))
        {
            for (k = 0; k < 3; k++)
            {
                for (d = 0; d < 2; d++)
                {
                    int len = app_len(k), i;
                    for (i = 0; i < len; i++)
                    {
                        msg[i] = (unsigned char) (k * 17 + d * 91 + i * 3);
                    }
                    world_app_send(&w, d, msg, len);
                    quiesce(&w, &R, sc);
                }
            }
            world_close(&w, 0);
            quiesce(&w, &R, sc);
        }
        o->entropy_draws = env_entropy_draws - e0;
        o->entropy_bytes = env_entropy_bytes - b0;
    }
    for (d = 0; d < 2; d++)
    {
        int off = 0;
        o->slen[d] = (int) R.out[d].len;
        if (o->slen[d] > MAXSTREAM)
        {
            o->slen[d] = MAXSTREAM;
        }
        memcpy(o->stream[d], R.out[d].p, (size_t) o->slen[d]);
        while (off + 5 <= o->slen[d] && o->nb[d] < MAXB)
        {
            o->bound[d][o->nb[d]++] = off;
            off += 5 + ((o->stream[d][off + 3] << 8) | o->stream[d][off + 4]);
        }
        o->dlen[d] = (int) w.s[d].delivered.len;
        o->dhash[d] = fnv1a(w.s[d].delivered.p, w.s[d].delivered.len, FNV0);
        o->complete[d] = world_is_complete(&w, d);
        o->resumed[d] = w.s[d].ssl ? (matrixSslIsResumedSession(w.s[d].ssl) == PS_TRUE) : 0;
        o->comp_at_first_delivery[d] = w.s[d].deliv_incomplete == 0;
    }
    /* alerts: every "alert" line of the trace, in order per side */
    {
        uint64_t h = FNV0;
        char *p = (char *) w.trace.p;
        while (p && *p)
        {
            char *e = strchr(p, '\n');
            size_t n = e ? (size_t) (e - p) : strlen(p);
            if (n > 2 && (strstr(p, ":alert ") == p + 1 || strstr(p, ":err ") == p + 1))
            {
                h = fnv1a(p, n, h);
            }
            p = e ? e + 1 : NULL;
        }
        o->alerts_hash = h;
    }
    /* what the client stored for resumption, seen through the public API: the next connection's ClientHello */
    world_free_sessions(&w);
    if (world_new_sessions(&w) >= 0)
    {
        unsigned char *out;
        int32 n = matrixSslGetOutdata(w.s[0].ssl, &out);
        o->next_hello_len = n > 0 ? (int) n : -1;
    }
    o->ok = 1;
    buf_free(&R.out[0]); buf_free(&R.out[1]);
    world_free(&w);
}

/* ------------------------------------------------------------ enumeration */
typedef struct { int si; sched_t sc; } case_t;
static case_t *cases;
static long ncases, capcases;

static void add_case(int si, int mode, int dir, int ncut, int c0, int c1)
{
    if (ncases >= capcases)
    {
        capcases = capcases ? capcases * 2 : 65536;
        cases = realloc(cases, (size_t) capcases * sizeof(case_t));
    }
    cases[ncases].si = si;
    cases[ncases].sc.mode = mode;
    cases[ncases].sc.dir = dir;
    cases[ncases].sc.ncut = ncut;
    cases[ncases].sc.cut[0] = c0;
    cases[ncases].sc.cut[1] = c1;
    cases[ncases].sc.cut[2] = 0;
    ncases++;
}

static int near_boundary(const obs_t *o, int d, int k, int win)
{
    int i;
    for (i = 0; i < o->nb[d]; i++)
    {
        if (k >= o->bound[d][i] - win && k <= o->bound[d][i] + win)
        {
            return 1;
        }
    }
    return k >= o->slen[d] - win;
}

static void build_cases(int si)
{
    const obs_t *o = &refs[si];
    int d, k, k2, i, mode;
    for (mode = M_CUTS; mode <= M_PSEND; mode += 3) /* M_CUTS (receive side) and M_PSEND (send side) */
    {
        for (d = 0; d < 2; d++)
        {
            int hs_end = o->slen[d];
            /* the handshake part = everything before the first large application record; treat first 6000 bytes as dense */
            for (k = 1; k < o->slen[d]; k++)
            {
                int cheap = scens[si].kx == KX_PSK || scens[si].kx == KX_13_PSK;
                if (scens[si].pipeline == 2 && mode == M_CUTS && !near_boundary(o, d, k, 8) && (k % 64) != 0)
                {
                    continue;   /* this scenario is about the SEND side: every partial-send position, a grid of receive cuts */
                }
                if (scens[si].pipeline == 2 && mode == M_PSEND && k > o->slen[d] - 2200)
                {
                    add_case(si, mode, d, 1, k, 0);   /* every position inside the two application records and the closure */
                    continue;
                }
                if (thorough || near_boundary(o, d, k, 24) || (cheap ? (k < 1200 || (k % 256) == 0) : ((k < 2600 && (k % 16) == 0) || (k % 512) == 0)))
                {
                    add_case(si, mode, d, 1, k, 0);
                }
            }
            (void) hs_end;
            /* windowed pairs around every record boundary (and header) */
            for (i = 0; i < o->nb[d]; i++)
            {
                int b = o->bound[d][i], w = thorough ? 32 : 6;
                for (k = b - w; k <= b + w; k++)
                {
                    for (k2 = k + 1; k2 <= b + w; k2++)
                    {
                        if (k >= 1 && k2 < o->slen[d])
                        {
                            add_case(si, mode, d, 2, k, k2);
                        }
                    }
                }
            }
        }
    }
    add_case(si, M_BYTEWISE, 0, 0, 0, 0);
    add_case(si, M_BYTEWISE, 1, 0, 0, 0);
    add_case(si, M_BYTEWISE, 2, 0, 0, 0); /* partial sends of 1 byte, client */
    add_case(si, M_BYTEWISE, 3, 0, 0, 0); /* partial sends of 1 byte, server */
    add_case(si, M_RECORD_ALIGNED, 0, 0, 0, 0);
    add_case(si, M_RECORD_ALIGNED, 1, 0, 0, 0);
}

static const char *mname[] = { "recv-cuts", "bytewise", "record-aligned", "partial-send-cuts" };

static void run_case(void *ctx, mx_result_t *r)
{
    case_t *c = ctx;
    static obs_t o;
    const obs_t *ref = &refs[c->si];
    const char *sym = NULL;
    int d;
    run_scenario(c->si, &c->sc, &o);
    r->nontrivial = 1;
    r->transitions = 1;
    if (!o.ok)
    {
        sym = "scenario-could-not-run";
    }
    for (d = 0; d < 2 && !sym; d++)
    {
        if (o.slen[d] != ref->slen[d] || memcmp(o.stream[d], ref->stream[d], (size_t) o.slen[d]) != 0)
        {
            sym = d ? "server-output-bytes-differ" : "client-output-bytes-differ";
        }
        else if (o.dlen[d] != ref->dlen[d] || o.dhash[d] != ref->dhash[d])
        {
            sym = "delivered-plaintext-differs";
        }
        else if (o.mid_dlen[d] != ref->mid_dlen[d] || o.mid_dhash[d] != ref->mid_dhash[d])
        {
            sym = "plaintext-delivered-so-far-differs-at-quiescence";
        }
        else if (o.complete[d] != ref->complete[d] || o.resumed[d] != ref->resumed[d])
        {
            sym = "handshake-result-differs";
        }
        else if (o.comp_at_first_delivery[d] != ref->comp_at_first_delivery[d])
        {
            sym = "completion-vs-first-delivery-order-differs";
        }
    }
    if (!sym && o.next_hello_len != ref->next_hello_len)
    {
        sym = "session-stored-for-resumption-differs";
    }
    if (!sym && o.alerts_hash != ref->alerts_hash)
    {
        sym = "alerts-or-errors-differ";
    }
    if (!sym && (o.entropy_draws != ref->entropy_draws || o.entropy_bytes != ref->entropy_bytes))
    {
        sym = "entropy-draws-differ";
    }
    if (getenv("MXV_DEBUG"))
    {
        fprintf(stderr, "mid delivered %d/%d (ref %d/%d), final %d/%d (ref %d/%d)\n", o.mid_dlen[0], o.mid_dlen[1], ref->mid_dlen[0], ref->mid_dlen[1], o.dlen[0], o.dlen[1], ref->dlen[0], ref->dlen[1]);
    }
    snprintf(r->outcome, sizeof(r->outcome), "%s:%s:%s", scens[c->si].name, mname[c->sc.mode], sym ? sym : "same");
    r->trace_hash = fnv1a(o.stream[0], (size_t) o.slen[0], fnv1a(o.stream[1], (size_t) o.slen[1], FNV0));
    r->state_hash = fnv1a(r->desc, strlen(r->desc), FNV0);
    if (sym)
    {
        r->violation = 1;
        snprintf(r->key, sizeof(r->key), "%s|%s|dir=%d|%s", scens[c->si].name, mname[c->sc.mode], c->sc.dir, sym);
        snprintf(r->what, sizeof(r->what), "%s: schedule %s dir %d cuts %d,%d => %s (stream lens %d/%d vs ref %d/%d, delivered %d/%d vs %d/%d, complete %d%d vs %d%d)",
            scens[c->si].name, mname[c->sc.mode], c->sc.dir, c->sc.cut[0], c->sc.cut[1], sym, o.slen[0], o.slen[1], ref->slen[0], ref->slen[1],
            o.dlen[0], o.dlen[1], ref->dlen[0], ref->dlen[1], o.complete[0], o.complete[1], ref->complete[0], ref->complete[1]);
    }
}

static void run_group(long gi, void *unused)
{
    long k, lo = gi * 64, hi = lo + 64;
    (void) unused;
    if (hi > ncases)
    {
        hi = ncases;
    }
    for (k = lo; k < hi; k++)
    {
        char desc[200];
        case_t *c = &cases[k];
        if (mx_deadline_hit())
        {
            return;
        }
        snprintf(desc, sizeof(desc), "s=%d;m=%d;d=%d;n=%d;c0=%d;c1=%d (%s %s dir=%d cuts=%d,%d)", c->si, c->sc.mode, c->sc.dir, c->sc.ncut,
            c->sc.cut[0], c->sc.cut[1], scens[c->si].name, mname[c->sc.mode], c->sc.dir, c->sc.cut[0], c->sc.cut[1]);
        mx_fork_case(desc, run_case, c);
    }
}

static int make_ref(int si)
{
    pid_t pid;
    int st = 0;
    fflush(NULL);
    pid = fork();
    if (pid == 0)
    {
        sched_t none = { M_CUTS, 0, 0, { 0, 0, 0 } };
        static obs_t o;
        run_scenario(si, &none, &o);
        memcpy(&refs[si], &o, sizeof(o));
        _exit(0);
    }
    waitpid(pid, &st, 0);
    return refs[si].ok ? 0 : -1;
}

int main(int argc, char **argv)
{
    mx_cfg_t cfg;
    const char *replay;
    int si;

    memset(&cfg, 0, sizeof(cfg));
    cfg.property = "C18";
    cfg.sanitizer_is_oracle = 1;
    cfg.level = "model_checking";
    cfg.engine = "re-execution from scratch per chunking schedule (forked child), pinned entropy/clock, comparison with the unchunked reference execution";
    cfg.rule = "case = (scenario, schedule); schedules: every single receive-side cut of each direction's byte stream (thorough: all offsets; quick: within 24 bytes of any record boundary, all offsets < 1200 for PSK scenarios / every 16th < 2600 for certificate scenarios, and a 256/512-byte grid elsewhere), "
               "every pair of cuts within +-6 (thorough +-32) bytes of every record boundary, the same sets as partial-send positions (matrixSslSentData(n)), byte-at-a-time receive and send, record-aligned; all distinct, all non-trivial";
    cfg.assumptions[0] = "entropy and clock pinned; each execution starts from a fresh process image (fork) so the global session table is identical";
    cfg.assumptions[1] = "normalised observations: output bytes of both sides, delivered plaintext, completion and resumption predicates, alerts/errors, entropy draw counts; the API return-code sequence itself is not compared";
    replay = mx_parse_args(argc, argv, &cfg);
    thorough = !strcmp(cfg.tier, "thorough");
    cfg.bound = "1 cut anywhere, 2 cuts in a window around record boundaries, bytewise, record-aligned; receive side and send side";
    refs = mmap(NULL, sizeof(obs_t) * NSCEN, PROT_READ | PROT_WRITE, MAP_SHARED | MAP_ANONYMOUS, -1, 0);

    if (replay)
    {
        case_t c;
        mx_result_t r;
        memset(&c, 0, sizeof(c));
        if (sscanf(replay, "s=%d;m=%d;d=%d;n=%d;c0=%d;c1=%d", &c.si, &c.sc.mode, &c.sc.dir, &c.sc.ncut, &c.sc.cut[0], &c.sc.cut[1]) != 6 || c.si >= NSCEN)
        {
            fprintf(stderr, "bad descriptor\n");
            return 2;
        }
        if (make_ref(c.si) != 0)
        {
            fprintf(stderr, "reference run failed\n");
            return 2;
        }
        memset(&r, 0, sizeof(r));
        snprintf(r.desc, sizeof(r.desc), "%s", replay);
        run_case(&c, &r);
        mx_replay_print(&r);
        return 0;
    }
    mx_init(&cfg);
    for (si = 0; si < NSCEN; si++)
    {
        if (make_ref(si) != 0)
        {
            printf("INTERNAL property=C18 key=reference-failed|%s what=reference execution of scenario %s failed\n", scens[si].name, scens[si].name);
            return 2;
        }
        {
            const obs_t *o = &refs[si];
            int bad = scens[si].bad;
            fprintf(stderr, "ref %-28s streams %d/%d delivered %d/%d complete %d%d resumed %d%d records %d/%d\n", scens[si].name, o->slen[0], o->slen[1],
                o->dlen[0], o->dlen[1], o->complete[0], o->complete[1], o->resumed[0], o->resumed[1], o->nb[0], o->nb[1]);
            if ((!bad && !(o->complete[0] && o->complete[1])) || (bad && (o->complete[0] || o->complete[1])) ||
                (scens[si].resume && !(o->resumed[0] && o->resumed[1])))
            {
                printf("INTERNAL property=C18 key=reference-unexpected|%s what=reference execution of %s did not behave as the scenario intends\n", scens[si].name, scens[si].name);
                return 2;
            }
        }
        build_cases(si);
    }
    mx_parallel((ncases + 63) / 64, run_group, NULL);
    return mx_finish(NULL);
}
