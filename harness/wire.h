#ifndef MXV_WIRE_H
#define MXV_WIRE_H
#include "mxv.h"

int  mk_record(unsigned char *out, int dtls, int type, int vmaj, int vmin, int epoch, uint64_t seq,
    const unsigned char *body, int len);
void wire_version_bytes(int ver, int *maj, int *min);
int  world_step(world_t *w, int *turn);
int  world_run_steps(world_t *w, int nsteps);
int  world_count_steps(const wcfg_t *cfg);

typedef struct { unsigned char rec[2][2048]; int len[2]; } donor_t;
int  donor_capture(const wcfg_t *cfg, donor_t *d);
int  is_prefix(const buf_t *delivered, const buf_t *submitted);

/* standard configuration tables shared by the session-level drivers */
int  std_configs(wcfg_t *out, int max, int thorough);

#endif
