#ifndef MXV_SAN_H
#define MXV_SAN_H
#include <stddef.h>
const char *san_errfile(void);
void san_child_redirect(void);          /* call first thing in a case child */
int  san_classify(char *key, size_t n); /* parent: after the child died; 1 if a sanitizer report was found */
int  san_classify_file(const char *path, char *key, size_t n); /* same, on a given report file */
void san_cleanup(void);
#endif
