/* lib_san.c - sanitizer report capture: a case child redirects stderr to a per-worker file; when it dies the
 * parent turns the report into a stable key "<asan-kind|ubsan>|<file>|<function or message>". */
#include "mxv.h"
#include "san.h"
#include <unistd.h>
#include <fcntl.h>

static char san_path[256];

const char *san_errfile(void)
{
    if (!san_path[0])
    {
        snprintf(san_path, sizeof(san_path), "build/san-%d.err", (int) getpid());
    }
    return san_path;
}

void san_child_redirect(void)
{
    /* runs in the case child: the file must be the one its PARENT (the worker) will read.  If the worker has not named its
       file yet, it will name it after its own pid - which is this child's parent pid (naming it after getpid() here made
       the first abnormal case of every worker fall back to the unclassified crash-sig / abnormal-exit key) */
    int fd;
    if (!san_path[0])
    {
        snprintf(san_path, sizeof(san_path), "build/san-%d.err", (int) getppid());
    }
    fd = open(san_path, O_WRONLY | O_CREAT | O_TRUNC, 0644);
    if (fd >= 0)
    {
        dup2(fd, 2);
        close(fd);
    }
}

int san_classify(char *key, size_t n)
{
    return san_classify_file(san_errfile(), key, n);
}

int san_classify_file(const char *path_in, char *key, size_t n)
{
    char line[600];
    FILE *f = fopen(path_in, "r");
    key[0] = 0;
    if (!f)
    {
        return 0;
    }
    char ufunc[100] = "", ufile[240] = "";
    int in_first_stack = 0, stacks = 0;
    while (fgets(line, sizeof(line), f))
    {
        char *p;
        line[strcspn(line, "\n")] = 0;
        /* first user frame of the FIRST stack of the report (the faulting access / the second free): the SUMMARY line names
           the interceptor (memcpy, free, ...) when the access happens inside libc */
        if (!ufunc[0] && stacks <= 1 && (p = strstr(line, "    #")) == line)
        {
            char fn[100] = "", fp[240] = "";
            if (!in_first_stack)
            {
                in_first_stack = 1;
                stacks++;
            }
            if (stacks == 1 && sscanf(line, "    #%*d %*s in %99s %239s", fn, fp) == 2 && strncmp(fn, "__interceptor", 13) && strncmp(fn, "__asan", 6) && strncmp(fn, "__wrap_", 7) && strncmp(fn, "__real_", 7) &&
                !strstr(fp, "sanitizer_common") && !strstr(fp, "/asan/") && !strstr(fp, "asan_"))
            {
                char *b = strrchr(fp, '/');
                char *c;
                snprintf(ufile, sizeof(ufile), "%s", b ? b + 1 : fp);
                if ((c = strchr(ufile, ':'))) *c = 0;
                snprintf(ufunc, sizeof(ufunc), "%s", fn);
            }
        }
        else if (in_first_stack && strstr(line, "    #") != line)
        {
            in_first_stack = 0;
        }
        if ((p = strstr(line, "SUMMARY: AddressSanitizer: ")))
        {
            char what[64] = "", path[240] = "", func[100] = "";
            if (sscanf(p + 27, "%63s %239s in %99s", what, path, func) >= 2)
            {
                char *b = strrchr(path, '/');
                char *c = strchr(b ? b + 1 : path, ':');
                if (c) *c = 0;
                if (ufunc[0] && (!strncmp(func, "__interceptor", 13) || strstr(path, "sanitizer_common") || strstr(path, "asan_")))
                {
                    snprintf(key, n, "asan-%s|%s|%s", what, ufile, ufunc);
                }
                else
                {
                    snprintf(key, n, "asan-%s|%s|%s", what, b ? b + 1 : path, func);
                }
            }
            break;
        }
        if ((p = strstr(line, ": runtime error: ")) && !key[0])
        {
            char *b, *c;
            *p = 0;
            b = strrchr(line, '/');
            b = b ? b + 1 : line;
            c = strchr(b, ':');
            if (c) *c = 0;
            snprintf(key, n, "ubsan|%s|%.70s", b, p + 17);
        }
    }
    fclose(f);
    return key[0] != 0;
}

void san_cleanup(void)
{
    if (san_path[0])
    {
        unlink(san_path);
    }
}
