/* drv_dbg - print the honest trace of one configuration: drv_dbg ver cver kx [suite cauth early tickets] */
#include "mxv.h"
#include "wire.h"
int main(int argc, char **argv)
{
    wcfg_t c; world_t w; int rc, n; char d[128];
    memset(&c, 0, sizeof c);
    if (argc < 4) { fprintf(stderr, "usage\n"); return 2; }
    c.ver = atoi(argv[1]); c.cver = atoi(argv[2]); c.kx = atoi(argv[3]);
    if (argc > 4) c.suite = (uint16_t) strtol(argv[4], NULL, 0);
    if (argc > 5) c.client_auth = atoi(argv[5]);
    if (argc > 6) c.early_data = atoi(argv[6]);
    if (argc > 7) c.tickets = atoi(argv[7]);
    if (argc > 8) c.early_send = atoi(argv[8]);
    if (argc > 9) c.resume13 = atoi(argv[9]);
    cfg_desc(&c, d, sizeof d);
    rc = world_init(&w, &c);
    printf("%s init %d\n", d, rc);
    if (rc < 0) return 1;
    n = world_run_steps(&w, 100);
    printf("steps %d complete %d %d hs %d %d err %d %d\n%s", n, world_is_complete(&w, 0), world_is_complete(&w, 1),
        w.s[0].ssl->hsState, w.s[1].ssl->hsState, w.s[0].ssl->err, w.s[1].ssl->err, (char *) w.trace.p);
    return 0;
}
