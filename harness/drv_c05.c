/* drv_c05 - C05: the expected-name check accepts only certificates issued for that name.
 *
 * Bounded exhaustive enumeration of (certificate name set) x (expected name) x (nameType,
 * mFlags): every certificate is generated in-process with the OpenSSL X509 API (self-signed CA
 * that is also the trust anchor, subjectAltName built as raw ASN.1 so that malformed entries are
 * possible), parsed by MatrixSSL and pushed through matrixValidateCertsExt for every expected
 * name and option combination.  Oracles: (a) reference matcher written from the property
 * statement / RFC 6125 / RFC 5280 (c05_ref.h), both directions; (b) order independence: all
 * permutations of one SAN multiset must give the same verdict.  Work group = one SAN multiset
 * (+CN variant, +key type), all its orderings. */
#define OPENSSL_SUPPRESS_DEPRECATED
#include "mxv.h"
#include "crypto/cryptoApi.h"
#include "c05_names.h"
#include "c05_ref.h"
#include <openssl/evp.h>
#include <openssl/rsa.h>
#include <openssl/ec.h>
#include <openssl/x509.h>
#include <openssl/x509v3.h>
#include <openssl/pem.h>
#include <openssl/err.h>
#include <sys/mman.h>
#include <malloc.h>
#include "testkeys/RSA/2048_RSA_KEY.h"
#include "testkeys/EC/256_EC_KEY.h"
#include "testkeys/RSA/1024_RSA_KEY.h"

/* ------------------------------------------------------- deterministic heap content
 * The name matcher works on heap copies of the certificate names.  To make a read of
 * uninitialised heap bytes or of the slack behind a block (missing string terminator) behave the
 * same in the enumeration run and in every replay, each malloc'ed block of this process is
 * pre-filled with 0x5A up to its usable size.  Same allocator (glibc), same addresses - only the
 * initial content of fresh blocks is pinned.  calloc is untouched. */
#if !defined(MXV_VARIANT_asan) && !defined(MXV_VARIANT_tsan)   /* the sanitizers bring their own allocator */
extern void *__libc_malloc(size_t);
extern void *__libc_calloc(size_t, size_t);
extern void *__libc_realloc(void *, size_t);
extern void __libc_free(void *);
#define HEAP_FILL 0x5A
void *malloc(size_t n)
{
    void *p = __libc_malloc(n);
    if (p) memset(p, HEAP_FILL, malloc_usable_size(p));
    return p;
}
void *calloc(size_t a, size_t b) { return __libc_calloc(a, b); }
void *realloc(void *o, size_t n)
{
    size_t old = o ? malloc_usable_size(o) : 0, now;
    void *p = __libc_realloc(o, n);
    if (p && (now = malloc_usable_size(p)) > old) memset((char *) p + old, HEAP_FILL, now - old);
    return p;
}
void free(void *p) { __libc_free(p); }
#endif

/* ------------------------------------------------------------------ globals */
static int thorough;
static int g_dump;                       /* replay: dump certificates / names to stderr */
static EVP_PKEY *g_key[3];               /* 0 = RSA-2048, 1 = P-256, 2 = RSA-1024 */
static const char keyletter[3] = { 'r', 'p', 's' };
static int refused[NEXP + 1];               /* psX509ValidateGeneralName(E) < 0 */

typedef struct {
    long certs, certs_refused, evals, libcalls, definite, dontcare, accepts, viol_a, viol_b, refused_names, groups;
} counters_t;
static counters_t *CT;
#define CT_ADD(f, v) __atomic_fetch_add(&CT->f, (long) (v), __ATOMIC_RELAXED)

/* ------------------------------------------------------------------ work groups */
typedef struct { signed char n, cn, key; short idx[3]; } group_t;   /* idx ascending = the multiset */
static group_t *groups;
static long ngroups, capgroups;
static void add_group(int key, int cn, int n, int a, int b, int c)
{
    group_t *g;
    if (ngroups >= capgroups)
    {
        capgroups = capgroups ? capgroups * 2 : 4096;
        groups = realloc(groups, (size_t) capgroups * sizeof(group_t));
    }
    g = &groups[ngroups++];
    g->key = (signed char) key; g->cn = (signed char) cn; g->n = (signed char) n;
    g->idx[0] = (short) a; g->idx[1] = (short) b; g->idx[2] = (short) c;
}
static const int PERM3[6][3] = { { 0, 1, 2 }, { 0, 2, 1 }, { 1, 0, 2 }, { 1, 2, 0 }, { 2, 0, 1 }, { 2, 1, 0 } };
static int nperms(int n) { return n <= 1 ? 1 : n == 2 ? 2 : 6; }
static void perm_of(const group_t *g, int k, names_t *N)
{
    int i;
    N->n = g->n;
    N->cn = g->cn;
    for (i = 0; i < g->n; i++)
    {
        N->idx[i] = g->idx[g->n == 2 ? (k ? 1 - i : i) : PERM3[k][i]];
    }
}

/* ------------------------------------------------------------------ printing */
static void show_bytes(char *out, size_t n, const char *p, int len)
{
    size_t k = 0;
    int i;
    for (i = 0; i < len && k + 5 < n; i++)
    {
        unsigned char c = (unsigned char) p[i];
        if (c >= 0x20 && c <= 0x7e && c != '"' && c != '\\' && c != '<' && c != ';') out[k++] = (char) c;
        else k += (size_t) snprintf(out + k, n - k, "<%02x>", c);
    }
    out[k] = 0;
}
static void show_ent(char *out, size_t n, const sanent_t *e)
{
    size_t k = (size_t) snprintf(out, n, "%s:", kind_name[e->kind]);
    if (e->kind == K_IP)
    {
        int i;
        for (i = 0; i < e->len && k + 3 < n; i++) k += (size_t) snprintf(out + k, n - k, "%02x", (unsigned char) e->b[i]);
    }
    else show_bytes(out + k, n - k, e->b, e->len);
}
/* machine part: cn=<i>;san=<i.j.k|->;e=<i|-1>;t=<nameType>;m=<mFlags>;k=<r|p>;o=<0 one order|1 all orders> */
static void mkdesc(char *out, size_t n, const names_t *N, int key, int e, int ci, int allorders)
{
    char san[40] = "-", tmp[64];
    size_t k = 0;
    int i;
    for (i = 0; i < N->n; i++) k += (size_t) snprintf(san + k, sizeof(san) - k, "%s%d", i ? "." : "", N->idx[i]);
    k = (size_t) snprintf(out, n, "cn=%d;san=%s;e=%d;t=%d;m=%u;k=%c;o=%d (", N->cn, san, e, ci < 0 ? -1 : COMBO[ci].type, ci < 0 ? 0 : COMBO[ci].mflags, keyletter[key], allorders);
    if (N->cn)
    {
        show_bytes(tmp, 40, CNS[N->cn].b, CNS[N->cn].len);
        k += (size_t) snprintf(out + k, n > k ? n - k : 0, "CN=%s ", tmp);
        if (k >= n) k = n - 1;
    }
    k += (size_t) snprintf(out + k, n > k ? n - k : 0, "SAN%s=[", allorders ? "{any order}" : "");
    if (k >= n) k = n - 1;
    for (i = 0; i < N->n; i++)
    {
        show_ent(tmp, 42, &POOL[N->idx[i]]);
        k += (size_t) snprintf(out + k, n > k ? n - k : 0, "%s%s", i ? "," : "", tmp);
        if (k >= n) k = n - 1;
    }
    if (e >= 0)
    {
        show_bytes(tmp, 40, EXP[e].s, (int) strlen(EXP[e].s));
        k += (size_t) snprintf(out + k, n > k ? n - k : 0, "] expected=%s type=%s)", tmp, COMBO[ci].name);
    }
    else k += (size_t) snprintf(out + k, n > k ? n - k : 0, "] all expected names, all types)");
}

/* ------------------------------------------------------------------ certificates */
static size_t der_len(unsigned char *o, size_t len)
{
    if (len < 128)
    {
        o[0] = (unsigned char) len;
        return 1;
    }
    o[0] = 0x81; o[1] = (unsigned char) len;
    return 2;
}
static int build_der(const names_t *N, int key, unsigned char **der)
{
    X509 *x = X509_new();
    X509_NAME *nm = X509_NAME_new();
    ASN1_INTEGER *ser = ASN1_INTEGER_new();
    ASN1_TIME *t0 = ASN1_TIME_new(), *t1 = ASN1_TIME_new();
    X509_EXTENSION *ex;
    int len = -1, i;

    *der = NULL;
    X509_set_version(x, 2);
    ASN1_INTEGER_set(ser, 0x0c05);
    X509_set_serialNumber(x, ser);
    X509_NAME_add_entry_by_txt(nm, "O", MBSTRING_ASC, (const unsigned char *) "MXV", 3, -1, 0);
    if (N->cn)
    {
        X509_NAME_add_entry_by_txt(nm, "CN", MBSTRING_ASC, (const unsigned char *) CNS[N->cn].b, CNS[N->cn].len, -1, 0);
    }
    X509_set_subject_name(x, nm);
    X509_set_issuer_name(x, nm);
    ASN1_TIME_set(t0, (time_t) (MXV_T0 - 86400LL * 30));
    ASN1_TIME_set(t1, (time_t) (MXV_T0 + 86400LL * 365));
    X509_set1_notBefore(x, t0);
    X509_set1_notAfter(x, t1);
    X509_set_pubkey(x, g_key[key]);
    ex = X509V3_EXT_conf_nid(NULL, NULL, NID_basic_constraints, "critical,CA:TRUE");
    X509_add_ext(x, ex, -1);
    X509_EXTENSION_free(ex);
    ex = X509V3_EXT_conf_nid(NULL, NULL, NID_key_usage, "critical,digitalSignature,keyCertSign");
    X509_add_ext(x, ex, -1);
    X509_EXTENSION_free(ex);
    if (N->n > 0)
    {
        unsigned char body[256], gn[264];
        size_t bl = 0, gl = 0;
        ASN1_OCTET_STRING *os = ASN1_OCTET_STRING_new();
        for (i = 0; i < N->n; i++)
        {
            const sanent_t *e = &POOL[N->idx[i]];
            body[bl++] = kind_gntag[e->kind];
            bl += der_len(body + bl, (size_t) e->len);
            memcpy(body + bl, e->b, (size_t) e->len);
            bl += (size_t) e->len;
        }
        gn[gl++] = 0x30;
        gl += der_len(gn + gl, bl);
        memcpy(gn + gl, body, bl);
        gl += bl;
        ASN1_OCTET_STRING_set(os, gn, (int) gl);
        ex = X509_EXTENSION_create_by_NID(NULL, NID_subject_alt_name, 0, os);
        X509_add_ext(x, ex, -1);
        X509_EXTENSION_free(ex);
        ASN1_OCTET_STRING_free(os);
    }
    if (X509_sign(x, g_key[key], EVP_sha256()) > 0)
    {
        len = i2d_X509(x, der);
    }
    if (g_dump && len > 0)
    {
        PEM_write_X509(stderr, x);
    }
    X509_free(x);
    X509_NAME_free(nm);
    ASN1_INTEGER_free(ser);
    ASN1_TIME_free(t0);
    ASN1_TIME_free(t1);
    return len;
}

/* sig: copy of the subject object's signature octets - psVerifySig decrypts an RSA signature IN PLACE
 * (pubkey_verify.c casts the const away), so a certificate object validates only once unless restored */
typedef struct { psX509Cert_t *sc, *ic; int parsed; uint32 ff_s, ff_i; int internal; unsigned char sig[512]; int siglen; } mcert_t;

static void mcert_free(mcert_t *c)
{
    if (c->sc) psX509FreeCert(c->sc);
    if (c->ic) psX509FreeCert(c->ic);
    c->sc = c->ic = NULL;
}
static void mcert_make(mcert_t *c, const names_t *N, int key)
{
    unsigned char *der = NULL;
    int len = build_der(N, key, &der);
    int32 r1, r2;
    memset(c, 0, sizeof(*c));
    if (len <= 0)
    {
        c->internal = 1;
        return;
    }
    r1 = psX509ParseCert(NULL, der, (uint32) len, &c->sc, 0);
    r2 = psX509ParseCert(NULL, der, (uint32) len, &c->ic, 0);
    OPENSSL_free(der);
    if (r1 > 0 && r2 > 0)
    {
        c->parsed = 1;
        c->ff_s = c->sc->authFailFlags;
        c->ff_i = c->ic->authFailFlags;
        c->siglen = c->sc->signatureLen <= sizeof(c->sig) ? (int) c->sc->signatureLen : 0;
        memcpy(c->sig, c->sc->signature, (size_t) c->siglen);
    }
    else
    {
        if ((r1 > 0) != (r2 > 0)) c->internal = 2;   /* same bytes parsed differently */
        mcert_free(c);
    }
}

/* 1 accept, 0 name mismatch, -1 anything else */
static int ms_eval(mcert_t *c, const char *E, int type, unsigned mflags, unsigned flags, int32 *prc)
{
    matrixValidateCertsOptions_t o;
    psX509Cert_t *found = NULL;
    int32 rc;
    memset(&o, 0, sizeof(o));
    o.nameType = (expectedNameType_t) type;
    o.mFlags = mflags;
    o.flags = flags;
    c->sc->authStatus = 0; c->sc->authFailFlags = c->ff_s;
    c->ic->authStatus = 0; c->ic->authFailFlags = c->ff_i;
    memcpy(c->sc->signature, c->sig, (size_t) c->siglen);
    rc = matrixValidateCertsExt(NULL, c->sc, c->ic, (char *) E, &found, NULL, NULL, &o);
    if (prc) *prc = rc;
    if (rc == PS_SUCCESS && c->sc->authStatus == PS_CERT_AUTH_PASS && c->sc->authFailFlags == c->ff_s) return 1;
    if (rc == PS_CERT_AUTH_FAIL_EXTENSION && c->sc->authStatus == PS_CERT_AUTH_FAIL_EXTENSION &&
        c->sc->authFailFlags == (c->ff_s | PS_CERT_AUTH_FAIL_SUBJECT_FLAG) && !(c->ff_s & PS_CERT_AUTH_FAIL_SUBJECT_FLAG)) return 0;
    return -1;
}

/* ------------------------------------------------------------------ judging */
static const char *reach(int e) { return refused[e] ? "reach=direct-api-only" : "reach=session-api"; }

/* oracle (a) on one evaluation; v = MatrixSSL verdict (1/0), parsed = certificate accepted by the parser.
 * returns 1 if a violation was written to r */
static int judge_a(const names_t *N, int key, int e, int ci, int parsed, int v, int32 rc, mx_result_t *r, int *is_definite)
{
    int wit, ref = ref_verdict(N, EXP[e].s, COMBO[ci].type, COMBO[ci].mflags, &wit);
    char cls[120];
    memset(r, 0, sizeof(*r));
    mkdesc(r->desc, sizeof(r->desc), N, key, e, ci, 0);
    r->transitions = 1;
    r->trace_hash = fnv1a(&v, sizeof(v), fnv1a(&parsed, sizeof(parsed), FNV0));
    *is_definite = ref != R_DONTCARE;
    if (ref == R_DONTCARE)
    {
        snprintf(r->outcome, sizeof(r->outcome), "dont-care:%s", v ? "accept" : "reject");
        return 0;
    }
    r->nontrivial = 1;
    if (!parsed && refusal_justified(N))
    {
        /* refusing a certificate with malformed (or merely tolerated) names is always allowed */
        snprintf(r->outcome, sizeof(r->outcome), "cert-refused-by-parser");
        return 0;
    }
    if (v == ref)
    {
        snprintf(r->outcome, sizeof(r->outcome), "agree:%s", v ? "accept" : "reject");
        return 0;
    }
    r->violation = 1;
    if (v)
    {
        diag_false_accept(N, EXP[e].s, ci, cls, sizeof(cls));
        snprintf(r->key, sizeof(r->key), "false-accept|%s|%s", cls, reach(e));
        snprintf(r->what, sizeof(r->what), "certificate NOT issued for the expected name is accepted (rc=%d, authStatus PASS): expected name class %s, %s; reference: no eligible name matches [%s]",
            (int) rc, EXP[e].tag, COMBO[ci].name, cls);
    }
    else
    {
        diag_false_reject(N, EXP[e].s, ci, parsed, wit, cls, sizeof(cls));
        snprintf(r->key, sizeof(r->key), "false-reject|%s|%s", cls, reach(e));
        snprintf(r->what, sizeof(r->what), "certificate issued for the expected name is rejected (%s): expected name class %s, %s; reference: matched by %s [%s]",
            parsed ? "no matching subject" : "parser refused a well-formed certificate", EXP[e].tag, COMBO[ci].name,
            wit >= 0 ? POOL[N->idx[wit]].tag : wit == -2 ? CNS[N->cn].tag : "?", cls);
    }
    snprintf(r->outcome, sizeof(r->outcome), "VIOLATION:%s", v ? "false-accept" : "false-reject");
    return 1;
}

/* oracle (b): verdicts of all orderings of one multiset for one (e, combo) */
static int judge_b(const group_t *g, int e, int ci, const int *parsed, const signed char *v, mx_result_t *r)
{
    int np = nperms(g->n), k, differ = 0, pdiff = 0;
    names_t N0, Nk;
    char cls[120] = "";
    perm_of(g, 0, &N0);
    memset(r, 0, sizeof(*r));
    mkdesc(r->desc, sizeof(r->desc), &N0, g->key, e, ci, 1);
    r->transitions = (uint32_t) np;
    r->nontrivial = 1;
    r->trace_hash = FNV0;
    for (k = 0; k < np; k++)
    {
        unsigned char b[2];
        b[0] = (unsigned char) v[k]; b[1] = (unsigned char) parsed[k];
        r->trace_hash = fnv1a(b, 2, r->trace_hash);
        if (v[k] != v[0]) differ = 1;
        if (parsed[k] != parsed[0]) pdiff = 1;
    }
    if (!differ)
    {
        snprintf(r->outcome, sizeof(r->outcome), "order-independent");
        return 0;
    }
    /* position-sensitive mechanisms first (the loose-matching defects are position independent by themselves) */
    if (pdiff)
    {
        snprintf(cls, sizeof(cls), "cert-refusal-depends-on-entry-order");
    }
    else if (has_trailing_nul_and_other_string(&N0))
    {
        snprintf(cls, sizeof(cls), "san-entry-after-trailing-nul-entry");
    }
    else
    {
        int ref = ref_verdict(&N0, EXP[e].s, COMBO[ci].type, COMBO[ci].mflags, NULL);
        for (k = 0; k < np && !cls[0]; k++)
        {
            int wit;
            perm_of(g, k, &Nk);
            if (ref == R_DONTCARE || v[k] == ref) continue;
            ref_verdict(&Nk, EXP[e].s, COMBO[ci].type, COMBO[ci].mflags, &wit);
            if (v[k]) diag_false_accept(&Nk, EXP[e].s, ci, cls, sizeof(cls));
            else diag_false_reject(&Nk, EXP[e].s, ci, 1, wit, cls, sizeof(cls));
        }
        if (!cls[0]) snprintf(cls, sizeof(cls), "unexplained|t=%s", family(ci));
    }
    r->violation = 1;
    snprintf(r->key, sizeof(r->key), "order-dependent|%s|%s", cls, reach(e));
    {
        char vs[16];
        for (k = 0; k < np; k++) vs[k] = !parsed[k] ? 'x' : v[k] ? 'A' : 'r';
        vs[np] = 0;
        snprintf(r->what, sizeof(r->what), "verdict depends on the position of the entries in the subjectAltName list: orderings (lexicographic) give %s (A accept, r reject, x certificate refused); expected name class %s, %s [%s]",
            vs, EXP[e].tag, COMBO[ci].name, cls);
    }
    snprintf(r->outcome, sizeof(r->outcome), "VIOLATION:order-dependent");
    return 1;
}

static void internal_result(mx_result_t *r, const names_t *N, int key, int e, int ci, const char *cls, int32 rc)
{
    memset(r, 0, sizeof(*r));
    mkdesc(r->desc, sizeof(r->desc), N, key, e, ci, 0);
    r->violation = 2;
    snprintf(r->key, sizeof(r->key), "internal|%s", cls);
    snprintf(r->what, sizeof(r->what), "not a name verdict: %s (rc=%d)", cls, (int) rc);
    snprintf(r->outcome, sizeof(r->outcome), "INTERNAL:%s", cls);
}

/* ------------------------------------------------------------------ one group */
typedef struct {
    int parsed[6];
    signed char v[6][NEXP][NCOMBO];
} gres_t;

/* evaluate every ordering of the group; record==1: mx_record results; else keep only tables.
 * e_only/ci_only >= 0 restrict (replay). returns 0, or -1 if the deadline cut the group short */
static int run_group_core(const group_t *g, gres_t *G, int record, int e_only, int ci_only, int k_only, mx_result_t *last)
{
    int np = nperms(g->n), k, e, ci, nviol = 0, anyacc = 0, anyparsed = 0, anyrefused = 0;
    long evals = 0, libcalls = 0, definite = 0, dontcare = 0;
    mx_result_t r;
    names_t N;

    memset(G, 0, sizeof(*G));
    for (k = 0; k < np; k++)
    {
        mcert_t c;
        if (k_only >= 0 && k != k_only) continue;
        if (record && mx_deadline_hit()) return -1;
        perm_of(g, k, &N);
        mcert_make(&c, &N, g->key);
        if (c.internal)
        {
            internal_result(&r, &N, g->key, -1, -1, c.internal == 1 ? "openssl-could-not-build-certificate" : "same-der-parsed-differently", 0);
            if (record) mx_record(&r);
            if (last) *last = r;
            return 0;
        }
        G->parsed[k] = c.parsed;
        if (c.parsed) anyparsed = 1; else anyrefused = 1;
        if (g_dump)
        {
            fprintf(stderr, "ordering %d: certificate %s by psX509ParseCert\n", k, c.parsed ? "parsed" : "REFUSED");
            if (c.parsed)
            {
                x509GeneralName_t *n;
                fprintf(stderr, "  parsed CN: %s\n", c.sc->subject.commonName ? c.sc->subject.commonName : "(none)");
                for (n = c.sc->extensions.san; n; n = n->next)
                {
                    fprintf(stderr, "  parsed SAN entry id=%d dataLen=%d (heap block of %d usable bytes)\n", (int) n->id, (int) n->dataLen, (int) malloc_usable_size(n->data));
                }
            }
        }
        for (e = 0; e < NEXP; e++)
        {
            if (e_only >= 0 && e != e_only) continue;
            for (ci = 0; ci < NCOMBO; ci++)
            {
                int v = 0, def = 0;
                int32 rc = 0;
                if (ci_only >= 0 && ci != ci_only) continue;
                if (g->key == 1 && COMBO[ci].mflags != 0) continue;          /* P-256 slice: mFlags = 0 only */
                if (c.parsed)
                {
                    v = ms_eval(&c, EXP[e].s, COMBO[ci].type, COMBO[ci].mflags, 0, &rc);
                    libcalls++;
                    if (v < 0)
                    {
                        internal_result(&r, &N, g->key, e, ci, "chain-validation-failed-for-another-reason", rc);
                        if (g_dump) fprintf(stderr, "  INTERNAL e=%d ci=%d rc=%d authStatus=%d flags=0x%x\n", e, ci, (int) rc, (int) c.sc->authStatus, (unsigned) c.sc->authFailFlags);
                        if (record) mx_record(&r);
                        if (last) *last = r;
                        v = 0;
                        continue;
                    }
                }
                evals++;
                G->v[k][e][ci] = (signed char) v;
                anyacc |= v;
                if (judge_a(&N, g->key, e, ci, c.parsed, v, rc, &r, &def))
                {
                    nviol++;
                    if (record)
                    {
                        mx_record(&r);
                        CT_ADD(viol_a, 1);
                    }
                }
                if (def) definite++; else dontcare++;
                if (last && e_only >= 0 && ci_only >= 0 && k_only >= 0) *last = r;
                if (g_dump && e_only >= 0)
                {
                    fprintf(stderr, "  ordering %d type=%s: MatrixSSL rc=%d => %s; reference => %s\n", k, COMBO[ci].name, (int) rc,
                        !c.parsed ? "no-match (certificate refused)" : v ? "ACCEPT" : "reject",
                        def ? (ref_verdict(&N, EXP[e].s, COMBO[ci].type, COMBO[ci].mflags, NULL) ? "ACCEPT" : "reject") : "don't care");
                }
            }
        }
        mcert_free(&c);
    }
    /* oracle (b) */
    if (np > 1 && k_only < 0)
    {
        for (e = 0; e < NEXP; e++)
        {
            if (e_only >= 0 && e != e_only) continue;
            for (ci = 0; ci < NCOMBO; ci++)
            {
                signed char vv[6];
                if (ci_only >= 0 && ci != ci_only) continue;
                for (k = 0; k < np; k++) vv[k] = G->v[k][e][ci];
                if (judge_b(g, e, ci, G->parsed, vv, &r))
                {
                    nviol++;
                    if (record)
                    {
                        mx_record(&r);
                        CT_ADD(viol_b, 1);
                    }
                }
                if (last && e_only >= 0 && ci_only >= 0) *last = r;
            }
        }
    }
    if (record)
    {
        /* one aggregated record per group */
        char kinds[8];
        int i;
        perm_of(g, 0, &N);
        memset(&r, 0, sizeof(r));
        mkdesc(r.desc, sizeof(r.desc), &N, g->key, -1, -1, 1);
        for (i = 0; i < g->n; i++) kinds[i] = kind_letter[POOL[g->idx[i]].kind];
        kinds[g->n] = 0;
        snprintf(r.outcome, sizeof(r.outcome), "%ssan=%s;cn=%d;%s;%s", g->key == 1 ? "p256:" : "", g->n ? kinds : "-", g->cn != 0,
            anyparsed && anyrefused ? "refusal-depends-on-order" : anyparsed ? "parsed" : "cert-refused-by-parser", anyacc ? "some-accept" : "no-accept");
        r.transitions = (uint32_t) (evals > 0 ? evals : 1);
        r.nontrivial = definite > 0;
        r.trace_hash = fnv1a(G, sizeof(*G), FNV0);
        r.state_hash = fnv1a(r.desc, strlen(r.desc), r.trace_hash);
        mx_record(&r);
        CT_ADD(certs, np);
        for (k = 0; k < np; k++) CT_ADD(certs_refused, !G->parsed[k]);
        CT_ADD(evals, evals);
        CT_ADD(libcalls, libcalls);
        CT_ADD(definite, definite);
        CT_ADD(dontcare, dontcare);
        CT_ADD(groups, 1);
        for (k = 0; k < np; k++) for (e = 0; e < NEXP; e++) for (ci = 0; ci < NCOMBO; ci++) if (G->v[k][e][ci]) CT_ADD(accepts, 1);
    }
    (void) nviol;
    return 0;
}

/* group 0: the refused-name guard.  For every expected name: with VCERTS_FLAG_VALIDATE_EXPECTED_GENERAL_NAME
 * a name refused by psX509ValidateGeneralName must give PS_ARG_FAIL, any other name the raw verdict; the
 * illegal option combination ALWAYS_CHECK_SUBJECT_CN + SAN_* type must give PS_ARG_FAIL. */
static void run_sanity(int record, mx_result_t *last)
{
    names_t N;
    mcert_t c;
    mx_result_t r;
    int e, ci, bad = 0, nref = 0;
    long evals = 0;
    N.n = 1; N.idx[0] = 0; N.cn = 1;
    mcert_make(&c, &N, 0);
    memset(&r, 0, sizeof(r));
    if (!c.parsed)
    {
        internal_result(&r, &N, 0, -1, -1, "baseline-certificate-not-parsed", 0);
        if (record) mx_record(&r);
        if (last) *last = r;
        return;
    }
    for (e = 0; e < NEXP; e++)
    {
        nref += refused[e];
        for (ci = 0; ci < NCOMBO; ci++)
        {
            int32 rc1 = 0, rc2 = 0;
            int v1 = ms_eval(&c, EXP[e].s, COMBO[ci].type, COMBO[ci].mflags, 0, &rc1);
            int v2 = ms_eval(&c, EXP[e].s, COMBO[ci].type, COMBO[ci].mflags, VCERTS_FLAG_VALIDATE_EXPECTED_GENERAL_NAME, &rc2);
            evals += 2;
            if (refused[e] ? rc2 != PS_ARG_FAIL : (v1 != v2 || v1 < 0))
            {
                internal_result(&r, &N, 0, e, ci, refused[e] ? "validate-flag-did-not-refuse-name" : "validate-flag-changed-verdict", rc2);
                if (record) mx_record(&r);
                if (last) *last = r;
                bad++;
            }
        }
    }
    for (ci = NAME_TYPE_SAN_DNS; ci <= NAME_TYPE_SAN_IP_ADDRESS; ci++)
    {
        int32 rc = 0;
        ms_eval(&c, EXP[0].s, ci, MF_CN, 0, &rc);
        evals++;
        if (rc != PS_ARG_FAIL)
        {
            internal_result(&r, &N, 0, 0, 0, "illegal-option-combination-not-refused", rc);
            if (record) mx_record(&r);
            if (last) *last = r;
            bad++;
        }
    }
    mcert_free(&c);
    if (!bad)
    {
        memset(&r, 0, sizeof(r));
        snprintf(r.desc, sizeof(r.desc), "sanity=1 (refused-name guard: %d of %d expected names are refused by psX509ValidateGeneralName)", nref, NEXP);
        snprintf(r.outcome, sizeof(r.outcome), "sanity:refused-name-guard-ok");
        r.transitions = (uint32_t) evals;
        r.nontrivial = 1;
        r.trace_hash = fnv1a(refused, sizeof(refused), FNV0);
        if (record) mx_record(&r);
        if (last) *last = r;
    }
}


/* ------------------------------------------------------------------ part S: byte-substitution neighbourhood
 * For a few base (certificate name, expected name) pairs that match, EVERY single-byte substitution of the certificate
 * name (all 256 values at every position; name as subjectAltName entry of its kind, or as the only subject CN) and of
 * the expected name (255 values at every position) is evaluated under every (nameType, mFlags) combination and compared
 * with the reference matcher: the complete radius-1 neighbourhood of a match, which decides "case-insensitive EXACT
 * match" for every byte value (letters of the other case are the only substitutions that may still match; a '*' may
 * turn a one-character label into a legal wildcard - the reference knows). */
typedef struct { int kind; const char *cert; int certlen; const char *exp; const char *tag; } sbase_t;
static const sbase_t SB[] = {
    { K_DNS, "www.example.com", 15, "www.example.com", "dns" },
    { K_DNS, "a-1.example.com", 15, "a-1.example.com", "dns-hyphen-digit" },
    { K_EMAIL, "user@example.com", 16, "user@example.com", "email" },
    { K_DNS, "*.example.com", 13, "www.example.com", "dns-wild" },
    { K_IP, "\xc0\xa8\x01\x01", 4, "192.168.1.1", "ip4" },
    { K_DNS, "x_9.Example.com", 15, "X_9.example.COM", "dns-mixed-case" },
};
#define NSB ((int) (sizeof(SB) / sizeof(SB[0])))
typedef struct { int b, dir, pl, pos; } sgroup_t;
static sgroup_t sgroups[NSB * 2 * 2 * 20];
static long nsgroups;

static void s_names(const sgroup_t *sg, int x, names_t *N)
{
    const sbase_t *B = &SB[sg->b];
    int sub = sg->dir == 0;
    memset(N, 0, sizeof(*N));
    snprintf(dyn_exp, sizeof(dyn_exp), "%s", B->exp);
    if (sg->dir == 1) dyn_exp[sg->pos] = (char) x;
    if (sg->pl == 0)
    {
        memcpy(dyn_san, B->cert, (size_t) B->certlen);
        if (sub) dyn_san[sg->pos] = (char) x;
        POOL[DYN_SAN].kind = B->kind;
        POOL[DYN_SAN].len = B->certlen;
        N->n = 1; N->idx[0] = DYN_SAN; N->cn = 0;
    }
    else
    {
        memcpy(dyn_cn, B->cert, (size_t) B->certlen);
        if (sub) dyn_cn[sg->pos] = (char) x;
        CNS[DYN_CN].len = B->certlen;
        N->n = 0; N->cn = DYN_CN;
    }
    refused[DYN_EXP] = psX509ValidateGeneralName(dyn_exp) < 0;
}

static void s_desc(char *out, size_t n, const sgroup_t *sg, int x, int ci)
{
    const sbase_t *B = &SB[sg->b];
    char a[80], e[80];
    if (B->kind == K_IP && sg->pl == 0) snprintf(a, sizeof(a), "%02x%02x%02x%02x", (unsigned char) dyn_san[0], (unsigned char) dyn_san[1], (unsigned char) dyn_san[2], (unsigned char) dyn_san[3]);
    else show_bytes(a, sizeof(a), sg->pl ? dyn_cn : dyn_san, B->certlen);
    show_bytes(e, sizeof(e), dyn_exp, (int) strlen(dyn_exp));
    snprintf(out, n, "S;b=%d;d=%d;pl=%d;i=%d;x=%d;t=%d;m=%u (%s %s=%s expected=%s type=%s: byte %d of the %s name replaced by 0x%02x)", sg->b, sg->dir, sg->pl, sg->pos, x,
        ci < 0 ? -1 : COMBO[ci].type, ci < 0 ? 0 : COMBO[ci].mflags, B->tag, sg->pl ? "CN" : kind_name[B->kind], a, e, ci < 0 ? "all" : COMBO[ci].name, sg->pos, sg->dir ? "expected" : "certificate", x);
}

/* ci_only/x_only >= 0: replay of one evaluation */
static void run_sgroup(const sgroup_t *sg, int record, int x_only, int ci_only, mx_result_t *last)
{
    const sbase_t *B = &SB[sg->b];
    mcert_t c;
    mx_result_t r;
    names_t N;
    int x, ci, key = g_key[2] ? 2 : 0, have = 0, nacc = 0, nrefused = 0;
    long evals = 0, definite = 0;
    uint64_t th = FNV0;
    memset(&c, 0, sizeof(c));
    for (x = sg->dir ? 1 : 0; x < 256; x++)
    {
        if (x_only >= 0 && x != x_only) continue;
        if (record && mx_deadline_hit()) break;
        s_names(sg, x, &N);
        if (sg->dir == 0 || !have)
        {
            if (have) mcert_free(&c);
            mcert_make(&c, &N, key);
            have = 1;
            if (c.internal)
            {
                internal_result(&r, &N, key, -1, -1, c.internal == 1 ? "openssl-could-not-build-certificate" : "same-der-parsed-differently", 0);
                s_desc(r.desc, sizeof(r.desc), sg, x, -1);
                if (record) mx_record(&r);
                if (last) *last = r;
                have = 0;
                continue;
            }
            nrefused += !c.parsed;
        }
        for (ci = 0; ci < NCOMBO; ci++)
        {
            int v = 0, def = 0;
            int32 rc = 0;
            if (ci_only >= 0 && ci != ci_only) continue;
            if (c.parsed)
            {
                v = ms_eval(&c, dyn_exp, COMBO[ci].type, COMBO[ci].mflags, 0, &rc);
                if (v < 0)
                {
                    internal_result(&r, &N, key, DYN_EXP, ci, "chain-validation-failed-for-another-reason", rc);
                    s_desc(r.desc, sizeof(r.desc), sg, x, ci);
                    if (record) mx_record(&r);
                    if (last) *last = r;
                    continue;
                }
            }
            evals++;
            nacc += v;
            th = fnv1a(&v, sizeof(v), th);
            if (judge_a(&N, key, DYN_EXP, ci, c.parsed, v, rc, &r, &def))
            {
                char k2[sizeof(r.key)];
                snprintf(k2, sizeof(k2), "%s", r.key);
                snprintf(r.key, sizeof(r.key), "%.*s|byte-substituted|%s|%s|%s-name%s", (int) strcspn(k2, "|"), k2, B->tag, sg->pl ? "cn" : "san", sg->dir ? "expected" : "certificate", k2 + strcspn(k2, "|"));
                s_desc(r.desc, sizeof(r.desc), sg, x, ci);
                if (record)
                {
                    mx_record(&r);
                    CT_ADD(viol_a, 1);
                }
            }
            else
            {
                s_desc(r.desc, sizeof(r.desc), sg, x, ci);
            }
            if (def) definite++;
            if (last && x_only >= 0 && ci_only >= 0) *last = r;
            if (g_dump) fprintf(stderr, "  x=0x%02x type=%s: MatrixSSL rc=%d => %s; reference => %s\n", x, COMBO[ci].name, (int) rc, !c.parsed ? "no-match (certificate refused)" : v ? "ACCEPT" : "reject",
                def ? (ref_verdict(&N, dyn_exp, COMBO[ci].type, COMBO[ci].mflags, NULL) ? "ACCEPT" : "reject") : "don't care");
        }
    }
    if (have) mcert_free(&c);
    if (record)
    {
        memset(&r, 0, sizeof(r));
        s_names(sg, sg->dir ? 1 : 0, &N);
        snprintf(r.desc, sizeof(r.desc), "S;b=%d;d=%d;pl=%d;i=%d;x=-1;t=-1;m=0 (%s as %s: every value of byte %d of the %s name)", sg->b, sg->dir, sg->pl, sg->pos, B->tag, sg->pl ? "CN" : "SAN", sg->pos, sg->dir ? "expected" : "certificate");
        snprintf(r.outcome, sizeof(r.outcome), "subst:%s:%s:%s:accepts=%d:refused=%d", B->tag, sg->pl ? "cn" : "san", sg->dir ? "exp" : "cert", nacc, nrefused);
        r.transitions = (uint32_t) (evals > 0 ? evals : 1);
        r.nontrivial = definite > 0;
        r.trace_hash = th;
        r.state_hash = fnv1a(r.desc, strlen(r.desc), th);
        mx_record(&r);
        CT_ADD(certs, sg->dir ? 1 : 256);
        CT_ADD(certs_refused, nrefused);
        CT_ADD(evals, evals);
        CT_ADD(libcalls, evals);
        CT_ADD(definite, definite);
        CT_ADD(dontcare, evals - definite);
        CT_ADD(accepts, nacc);
        CT_ADD(groups, 1);
    }
}

static void enumerate_s(void)
{
    int b, d, pl, i;
    for (b = 0; b < NSB; b++)
        for (d = 0; d < 2; d++)
            for (pl = 0; pl < 2; pl++)
            {
                int L = d ? (int) strlen(SB[b].exp) : SB[b].certlen;
                if (pl == 1 && SB[b].kind == K_IP) continue;
                for (i = 0; i < L && i < 20; i++)
                {
                    sgroup_t *sg = &sgroups[nsgroups++];
                    sg->b = b; sg->dir = d; sg->pl = pl; sg->pos = i;
                }
            }
}

static void group_fn(long gi, void *unused)
{
    static gres_t G;
    (void) unused;
    if (gi == 0)
    {
        run_sanity(1, NULL);
        return;
    }
    if (gi > ngroups)
    {
        run_sgroup(&sgroups[gi - ngroups - 1], 1, -1, -1, NULL);
        return;
    }
    run_group_core(&groups[gi - 1], &G, 1, -1, -1, -1, NULL);
}

/* ------------------------------------------------------------------ enumeration */
static void enumerate(void)
{
    int cn, a, b, c;
    /* RSA-2048: lists of length <= 1, every CN variant */
    for (cn = 0; cn < NCN; cn++)
    {
        add_group(0, cn, 0, 0, 0, 0);
        for (a = 0; a < NPOOL; a++) add_group(0, cn, 1, a, 0, 0);
    }
    /* RSA-1024 (cheapest signature check): longer lists */
    for (cn = 0; cn < NCN; cn++)
    {
        if (!thorough && cn > 1) break;              /* quick: length-2 lists with CN none, and with CN www.example.com over the core sub-pool */
        for (a = 0; a < NPOOL; a++)
            for (b = a + 1; b < NPOOL; b++)
            {
                if (!thorough && cn == 1 && !(POOL[a].core && POOL[b].core)) continue;
                add_group(2, cn, 2, a, b, 0);
            }
    }
    if (thorough)
    {
        for (cn = 0; cn <= 1; cn++)
            for (a = 0; a < NPOOL; a++)
                for (b = a + 1; b < NPOOL; b++)
                    for (c = b + 1; c < NPOOL; c++)
                    {
                        if (POOL[a].core && POOL[b].core && POOL[c].core) add_group(2, cn, 3, a, b, c);
                    }
    }
    /* P-256 slice: all lists of length <= 1, no CN, mFlags = 0 combinations only */
    add_group(1, 0, 0, 0, 0, 0);
    for (a = 0; a < NPOOL; a++) add_group(1, 0, 1, a, 0, 0);
}

static int combo_index(int type, unsigned mflags)
{
    int i;
    for (i = 0; i < NCOMBO; i++) if (COMBO[i].type == type && COMBO[i].mflags == mflags) return i;
    return -1;
}

static int do_replay(const char *d)
{
    static gres_t G;
    mx_result_t r;
    group_t g;
    names_t N;
    char san[40] = "", kc = 'r';
    int cn = 0, e = -1, t = 0, o = 0, i, ci, k_only = -1;
    unsigned m = 0;
    const char *p;

    memset(&r, 0, sizeof(r));
    snprintf(r.desc, sizeof(r.desc), "%s", d);
    g_dump = 1;
    if (!strncmp(d, "sanity=1", 8))
    {
        run_sanity(0, &r);
        mx_replay_print(&r);
        return 0;
    }
    if (d[0] == 'S')
    {
        sgroup_t sg;
        int x = -1;
        if (sscanf(d, "S;b=%d;d=%d;pl=%d;i=%d;x=%d;t=%d;m=%u", &sg.b, &sg.dir, &sg.pl, &sg.pos, &x, &t, &m) != 7 || sg.b < 0 || sg.b >= NSB || sg.pos < 0 || sg.pos >= 20 || x > 255)
        {
            fprintf(stderr, "bad descriptor: %s\n", d);
            return 2;
        }
        ci = x >= 0 ? combo_index(t, m) : -1;
        run_sgroup(&sg, 0, x, ci, &r);
        if (x < 0)
        {
            snprintf(r.desc, sizeof(r.desc), "%s", d);
            snprintf(r.outcome, sizeof(r.outcome), "group-replayed");
        }
        mx_replay_print(&r);
        return 0;
    }
    if (sscanf(d, "cn=%d;san=%39[^;];e=%d;t=%d;m=%u;k=%c;o=%d", &cn, san, &e, &t, &m, &kc, &o) != 7 || cn < 0 || cn >= NCN || e >= NEXP || e < -1)
    {
        fprintf(stderr, "bad descriptor: %s\n", d);
        return 2;
    }
    memset(&g, 0, sizeof(g));
    N.n = 0; N.cn = cn;
    for (p = san; *p && *p != '-' && N.n < 3; )
    {
        int v = atoi(p);
        if (v < 0 || v >= NPOOL)
        {
            fprintf(stderr, "bad SAN index\n");
            return 2;
        }
        N.idx[N.n++] = v;
        while (*p >= '0' && *p <= '9') p++;
        if (*p == '.') p++;
    }
    ci = e >= 0 ? combo_index(t, m) : -1;
    if (e >= 0 && ci < 0)
    {
        fprintf(stderr, "bad nameType/mFlags combination\n");
        return 2;
    }
    g.key = kc == 'p' ? 1 : kc == 's' ? 2 : 0;
    g.cn = (signed char) cn;
    g.n = (signed char) N.n;
    /* the multiset (ascending); o=0: find the ordering index equal to the given order */
    for (i = 0; i < N.n; i++) g.idx[i] = (short) N.idx[i];
    for (i = 0; i < N.n; i++)
    {
        int j;
        for (j = i + 1; j < N.n; j++)
        {
            if (g.idx[j] < g.idx[i])
            {
                short tmp = g.idx[i]; g.idx[i] = g.idx[j]; g.idx[j] = tmp;
            }
        }
    }
    if (!o && e >= 0)
    {
        for (i = 0; i < nperms(g.n); i++)
        {
            names_t P;
            perm_of(&g, i, &P);
            if (!memcmp(P.idx, N.idx, sizeof(int) * (size_t) N.n)) k_only = i;
        }
        if (k_only < 0)
        {
            fprintf(stderr, "SAN list must not repeat an entry\n");
            return 2;
        }
    }
    /* names in hex */
    fprintf(stderr, "subject CN [%s]: ", CNS[cn].tag);
    for (i = 0; i < CNS[cn].len; i++) fprintf(stderr, "%02x", (unsigned char) CNS[cn].b[i]);
    fprintf(stderr, "\n");
    for (i = 0; i < N.n; i++)
    {
        int j;
        fprintf(stderr, "SAN entry #%d %s [%s]: ", N.idx[i], kind_name[POOL[N.idx[i]].kind], POOL[N.idx[i]].tag);
        for (j = 0; j < POOL[N.idx[i]].len; j++) fprintf(stderr, "%02x", (unsigned char) POOL[N.idx[i]].b[j]);
        fprintf(stderr, "\n");
    }
    if (e >= 0)
    {
        fprintf(stderr, "expected name #%d [%s]%s: ", e, EXP[e].tag, refused[e] ? " (refused by psX509ValidateGeneralName)" : "");
        for (i = 0; EXP[e].s[i]; i++) fprintf(stderr, "%02x", (unsigned char) EXP[e].s[i]);
        fprintf(stderr, "  nameType=%d mFlags=0x%x (%s)\n", t, m, COMBO[ci].name);
    }
    run_group_core(&g, &G, 0, e, ci, k_only, &r);
    if (e < 0)
    {
        snprintf(r.desc, sizeof(r.desc), "%s", d);
        snprintf(r.outcome, sizeof(r.outcome), "group-replayed");
        r.trace_hash = fnv1a(&G, sizeof(G), FNV0);
    }
    mx_replay_print(&r);
    return 0;
}

int main(int argc, char **argv)
{
    mx_cfg_t cfg;
    const char *replay;
    static char bound[2400], extra[900];
    int e, rc, core = 0, i;

    memset(&cfg, 0, sizeof(cfg));
    cfg.property = "C05";
    cfg.level = "exploration";
    cfg.engine = "bounded exhaustive enumeration: every SAN list (all orderings of every multiset of pool entries up to the length bound) x subject-CN variant, "
                 "generated as a real self-signed CA certificate with the OpenSSL X509 API (subjectAltName as raw ASN.1), parsed by psX509ParseCert and validated with "
                 "matrixValidateCertsExt (flags=0) for every expected name x (nameType, mFlags) combination; verdicts compared with an independent reference matcher and across orderings";
    cfg.rule = "evaluation = (certificate, expected name, nameType, mFlags); MatrixSSL verdict: accept = rc 0 + authStatus PASS, reject = PS_CERT_AUTH_FAIL_EXTENSION + SUBJECT flag, "
               "certificate refused by psX509ParseCert = reject (allowed whenever the certificate has a malformed or trailing-NUL name); anything else is a harness-internal error. "
               "Oracle (a): verdict == reference (false-accept / false-reject). Oracle (b): all orderings of one SAN multiset give the same verdict (and the same parser decision). "
               "Reference: see c05_ref.h - dNSName/CN case-insensitive exact or '*.' + rest standing for exactly one non-empty left-most label; rfc822Name local part case-sensitive unless "
               "the case-insensitive flag (RFC 5280 7.5), host part case-insensitive, no '@' = never; iPAddress only 4-octet entries by canonical dotted quad; URI never; CN only without any "
               "dNSName/rfc822Name/iPAddress entry unless ALWAYS_CHECK_SUBJECT_CN; an IP-literal or e-mail string in dNSName/CN is compared as a plain string. "
               "DON'T CARE (excluded from (a), included in (b); counted in c05.dont_care): entry with one trailing NUL that would match once stripped; names differing only by one trailing dot; "
               "'*' in an unsupported position versus a literally identical expected name; CN fallback when the only SAN entries are URIs; CN fallback for HOSTNAME/CN type when the SAN has "
               "rfc822Name/iPAddress but no dNSName. One record per work group (multiset + CN + key type; transitions = evaluations, nontrivial = at least one definite comparison); "
               "every violating evaluation is additionally recorded individually under its stable key; key suffix reach=direct-api-only marks expected names that "
               "matrixSslNewClientSession would refuse (psX509ValidateGeneralName), reach=session-api all others";
    cfg.assumptions[0] = "clock pinned to 2024-01-01 (certificates valid from -30 d to +365 d); fixed RSA-2048, RSA-1024 and P-256 sample keys (testkeys/) (name matching does not depend on key bytes)";
    cfg.assumptions[1] = "each certificate is its own trust anchor (CA:TRUE, keyCertSign), parsed twice (subject object, issuer object); authStatus/authFailFlags and the signature octets of the subject object (RSA verification decrypts them in place) are restored between evaluations";
    cfg.assumptions[2] = "heap blocks are pre-filled with 0x5A up to their usable size (malloc interposed in the driver) so that reads of uninitialised bytes or behind an unterminated string are deterministic and replayable; under that fill an unterminated name never compares equal";
    cfg.assumptions[3] = "expected names are C strings (no embedded NUL possible); IPv6 literals are not in the expected-name grammar";
    cfg.assumptions[4] = "the VALIDATE_EXPECTED_GENERAL_NAME path is checked once per expected name (sanity group): refused names give PS_ARG_FAIL, others the raw verdict";
    replay = mx_parse_args(argc, argv, &cfg);
    thorough = !strcmp(cfg.tier, "thorough");

    if (POOL[34].len != 16 || POOL[14].len != 16)
    {
        fprintf(stderr, "pool table broken\n");
        return 2;
    }
    if (world_open() < 0)
    {
        fprintf(stderr, "matrixSslOpen failed\n");
        return 2;
    }
    env_reset(0);
    {
        /* fixed sample keys of the repository: the whole run is reproducible byte for byte (RSA) */
        const unsigned char *kp = RSA2048KEY;
        g_key[0] = d2i_AutoPrivateKey(NULL, &kp, RSA2048KEY_SIZE);
        kp = EC256KEY;
        g_key[1] = d2i_AutoPrivateKey(NULL, &kp, EC256KEY_SIZE);
        kp = RSA1024KEY;
        g_key[2] = d2i_AutoPrivateKey(NULL, &kp, RSA1024KEY_SIZE);
    }
    if (!g_key[0] || !g_key[1])
    {
        fprintf(stderr, "key loading failed\n");
        return 2;
    }
    for (e = 0; e < NEXP; e++) refused[e] = psX509ValidateGeneralName(EXP[e].s) < 0;

    if (replay)
    {
        return do_replay(replay);
    }
    for (i = 0; i < NPOOL; i++) core += POOL[i].core;
    snprintf(bound, sizeof(bound),
        "pool of %d SAN entries (dNSName/rfc822Name/iPAddress/URI incl. wildcards, embedded/trailing NUL, control and high-bit bytes, 3/4/16-octet addresses), %d subject-CN variants "
        "(none, exact, other case, wildcard, other, IP literal, e-mail, embedded NUL), %d expected names, %d (nameType, mFlags) combinations (ANY x {0,ci,cn,cn+ci}, HOSTNAME x {0,cn}, "
        "CN x {0,cn}, SAN_DNS, SAN_EMAIL x {0,ci}, SAN_IP_ADDRESS; cn=ALWAYS_CHECK_SUBJECT_CN, ci=SAN_EMAIL_CASE_INSENSITIVE_LOCAL_PART). RSA-2048 certificates: all SAN lists of "
        "length 0..1 x all CN variants. RSA-1024 certificates: all ordered lists of length 2 x %s; %s. P-256 slice: all lists of length 0..1, no CN, only the 6 combinations with mFlags=0. "
        "Every certificate x every expected name x every combination evaluated; lists with a repeated entry are not enumerated. "
        "Part S: for %d matching base pairs (dNSName, dNSName with hyphen/digit/one-letter label, rfc822Name, wildcard dNSName, iPAddress, mixed-case dNSName) every single-byte substitution "
        "(256 values x every position) of the certificate name - as the only SAN entry of its kind and as the only subject CN - and every substitution (255 values x every position) of the "
        "expected name, each under all %d combinations",
        NPOOL, NCN, NEXP, NCOMBO,
        thorough ? "all CN variants" : "CN none, plus all ordered lists of length 2 over the core sub-pool (entries flagged core in c05_names.h) x CN www.example.com",
        thorough ? "all ordered lists of length 3 over the core sub-pool (entries flagged core in c05_names.h) x CN {none, www.example.com}" : "no lists of length 3", NSB, NCOMBO);
    (void) core;
    cfg.bound = bound;

    CT = mmap(NULL, sizeof(*CT), PROT_READ | PROT_WRITE, MAP_SHARED | MAP_ANONYMOUS, -1, 0);
    if (CT == MAP_FAILED)
    {
        perror("mmap");
        return 2;
    }
    memset(CT, 0, sizeof(*CT));
    for (e = 0; e < NEXP; e++) CT->refused_names += refused[e];
    enumerate();
    enumerate_s();
    mx_init(&cfg);
    mx_parallel(ngroups + 1 + nsgroups, group_fn, NULL);
    snprintf(extra, sizeof(extra),
        "\"c05\": {\"groups\": %ld, \"groups_completed\": %ld, \"certificates\": %ld, \"certificates_refused_by_parser\": %ld, \"evaluations\": %ld, \"matrixValidateCertsExt_calls\": %ld, \"definite_comparisons\": %ld, "
        "\"dont_care\": %ld, \"accept_verdicts\": %ld, \"violating_evaluations_oracle_a\": %ld, \"violating_multiset_cases_oracle_b\": %ld, \"pool\": %d, \"core_pool\": %d, "
        "\"cn_variants\": %d, \"expected_names\": %d, \"expected_names_refused_by_psX509ValidateGeneralName\": %ld, \"combos\": %d}",
        ngroups + 1, CT->groups, CT->certs, CT->certs_refused, CT->evals, CT->libcalls, CT->definite, CT->dontcare, CT->accepts, CT->viol_a, CT->viol_b, NPOOL, core, NCN, NEXP, CT->refused_names, NCOMBO);
    rc = mx_finish(extra);
    return rc;
}
