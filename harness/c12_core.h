/* c12_core.h - case descriptor, buffers, partition iterator, bundle accounting for drv_c12 (private header) */
#ifndef C12_CORE_H
#define C12_CORE_H

#include "mxv.h"
#include "crypto/cryptoApi.h"
#include <sys/mman.h>
#include "c12_ref.h"

typedef unsigned char uch;

enum { T_HASH = 0, T_HMAC, T_HKDF, T_PBKDF2, T_AESBLK, T_CBC, T_GCM, T_GCMOPEN, T_CHACHA, T_CHAOPEN, T_NT };
static const char *tname[T_NT] = { "hash", "hmac", "hkdf", "pbkdf2", "aesblk", "cbc", "gcm", "gcmopen", "chacha", "chaopen" };

/* one primitive comparison.  t task, g algorithm variant, n length (bytes, or blocks for cbc),
 * m partition mode (0 cuts a<=b, empty segments skipped; 1 cuts, empty segments are issued as zero-length calls;
 * 2 composition bitmask in a), i input offset 0..15, o output offset 0..15 or -1 = in place,
 * k key variant/length, x/y/z task specific (see the prim_* functions) */
typedef struct { int t, g, n, m, a, b, i, o, k, x, y, z; } pc_t;

static void pc_desc(const pc_t *p, char *out, size_t sz, const char *fam, const char *human)
{
    snprintf(out, sz, "t=%s;g=%d;n=%d;m=%d;a=%d;b=%d;i=%d;o=%d;k=%d;x=%d;y=%d;z=%d;f=%s (%s)", tname[p->t], p->g, p->n, p->m,
        p->a, p->b, p->i, p->o, p->k, p->x, p->y, p->z, fam, human);
}

/* family label recorded in a descriptor ("f=...") */
static void pc_fam(const char *s, char *fam, size_t sz)
{
    const char *p = strstr(s, ";f=");
    size_t k = 0;
    fam[0] = 0;
    if (!p)
    {
        return;
    }
    for (p += 3; *p && *p != ' ' && *p != ';' && k < sz - 1; p++)
    {
        fam[k++] = *p;
    }
    fam[k] = 0;
}

static int pc_parse(const char *s, pc_t *p)
{
    char tn[16];
    int t;
    if (!strncmp(s, "bundle;", 7))
    {
        s += 7;
    }
    if (sscanf(s, "t=%15[^;];g=%d;n=%d;m=%d;a=%d;b=%d;i=%d;o=%d;k=%d;x=%d;y=%d;z=%d", tn, &p->g, &p->n, &p->m, &p->a, &p->b,
            &p->i, &p->o, &p->k, &p->x, &p->y, &p->z) != 12)
    {
        return -1;
    }
    for (t = 0; t < T_NT; t++)
    {
        if (!strcmp(tn, tname[t]))
        {
            p->t = t;
            return 0;
        }
    }
    return -1;
}

/* ----------------------------------------------------------------- data */
#define MSG_MAX (65537 + 256)
static uch MSG[MSG_MAX + 64], KEYM[1024];
static long g_seed;

static void fill_stream(uch *p, size_t n, uint64_t s)
{
    size_t i;
    uint64_t z = 0;
    for (i = 0; i < n; i++)
    {
        if ((i & 7) == 0)
        {
            s += 0x9E3779B97F4A7C15ULL;
            z = s;
            z = (z ^ (z >> 30)) * 0xBF58476D1CE4E5B9ULL;
            z = (z ^ (z >> 27)) * 0x94D049BB133111EBULL;
            z ^= z >> 31;
        }
        p[i] = (uch) (z >> (8 * (i & 7)));
    }
}

static void data_init(long seed)
{
    g_seed = seed;
    fill_stream(MSG, sizeof(MSG), 0xC12C12ULL + (uint64_t) seed * 1000003ULL);
    fill_stream(KEYM, sizeof(KEYM), 0x5EED5EEDULL + (uint64_t) seed * 7919ULL);
}

static const uch *msg_for(const pc_t *p)
{
    return MSG + ((p->n * 13 + p->g * 5 + p->t * 3) % 61);
}

/* exact-size heap buffers at a chosen offset: ASan sees any access past the end */
typedef struct { uch *base, *p; } xb_t;
static xb_t xdup(const uch *src, size_t n, int off)
{
    xb_t b;
    if (off < 0)
    {
        off = 0;
    }
    b.base = malloc(n + (size_t) off);
    if (!b.base)
    {
        fprintf(stderr, "drv_c12: out of memory\n");
        abort();
    }
    b.p = b.base + off;
    if (n && src)
    {
        memcpy(b.p, src, n);
    }
    else if (n)
    {
        memset(b.p, 0xA5, n);
    }
    return b;
}
#define xout(n, off) xdup(NULL, (n), (off))
#define xfree(b) free((b).base)

static int g_verbose, g_replay_mode;
static void vhex(const char *label, const uch *p, size_t n)
{
    size_t i;
    if (!g_verbose)
    {
        return;
    }
    fprintf(stderr, "  %-10s (%zu) ", label, n);
    for (i = 0; i < n && i < 600; i++)
    {
        fprintf(stderr, "%02x", p[i]);
    }
    fprintf(stderr, "%s\n", n > 600 ? "..." : "");
}

/* ------------------------------------------------------- partition iterator */
#define MAXSEG 34
/* split nu units according to (m,a,b) into segments; returns count; seg lengths may be 0 only in mode 1 */
static int segs(int nu, int m, int a, int b, int *st, int *ln)
{
    int k = 0, j, s = 0;
    if (m == 2)
    {
        for (j = 1; j < nu; j++)
        {
            if (a & (1 << (j - 1)))
            {
                st[k] = s; ln[k++] = j - s; s = j;
            }
        }
        if (nu > 0)
        {
            st[k] = s; ln[k++] = nu - s;
        }
        return k;
    }
    if (a > nu) a = nu;
    if (b > nu) b = nu;
    if (a > b) a = b;
    if (m == 1 || a > 0) { st[k] = 0; ln[k++] = a; }
    if (m == 1 || b > a) { st[k] = a; ln[k++] = b - a; }
    if (m == 1 || nu > b) { st[k] = b; ln[k++] = nu - b; }
    return k;
}

/* ------------------------------------------------------- bundle accounting */
#define MAXFAM 12
typedef struct { char fam[24]; long cmp, bad, refused; } famstat_t;
static struct
{
    pc_t spec;
    char human[96];
    famstat_t f[MAXFAM];
    int nf;
    long since_deadline_check;
    int stop;
} B;

/* shared slot so that the parent of a crashed bundle child knows which primitive was running */
typedef struct { volatile int active; pc_t pc; char fam[24]; char human[96]; } slot_t;
static slot_t *g_slot;

static int prim(const pc_t *pc, char *human, char *what); /* 0 equal, 1 VIOLATION, 2 correctly refused / don't care */

/* ---------------------------------------------------------------- UBSan seam
 * The library is built with -fsanitize=undefined -fno-sanitize-recover, i.e. the first undefined operation would abort
 * the bundle child and hide everything behind it.  The executable therefore defines the __ubsan_handle_*_abort entry
 * points itself (they take precedence over libubsan's): while a primitive is running the report is turned into a
 * violation of that primitive (longjmp back to the caller, stable key "ubsan|file:line|kind"); anywhere else it aborts. */
#include <setjmp.h>
static jmp_buf ub_jb;
static volatile int ub_armed;
static char ub_where[160], ub_kind[40];
typedef struct { const char *file; uint32_t line, col; } ub_loc_t;
static void ub_hit(void *data, const char *kind)
{
    const ub_loc_t *l = data;
    const char *f = l && l->file ? l->file : "?";
    snprintf(ub_where, sizeof(ub_where), "%s:%u", f, l ? l->line : 0);
    snprintf(ub_kind, sizeof(ub_kind), "%s", kind);
    if (g_verbose || !ub_armed)
    {
        fprintf(stderr, "UBSan: %s at %s:%u:%u\n", kind, f, l ? l->line : 0, l ? l->col : 0);
    }
    if (ub_armed)
    {
        ub_armed = 0;
        longjmp(ub_jb, 1);
    }
    abort();
}
#define UBH(name, kind) void __ubsan_handle_ ## name ## _abort(void *d, void *a, void *b); \
    void __ubsan_handle_ ## name ## _abort(void *d, void *a, void *b) { (void) a; (void) b; ub_hit(d, kind); }
UBH(add_overflow, "signed-overflow") UBH(sub_overflow, "signed-overflow") UBH(mul_overflow, "signed-overflow")
UBH(negate_overflow, "signed-overflow") UBH(divrem_overflow, "division-overflow") UBH(shift_out_of_bounds, "shift-out-of-bounds")
UBH(out_of_bounds, "index-out-of-bounds") UBH(type_mismatch_v1, "misaligned-or-null-access") UBH(pointer_overflow, "pointer-overflow")
UBH(load_invalid_value, "invalid-value") UBH(nonnull_arg, "null-argument") UBH(vla_bound_not_positive, "vla-bound")
UBH(float_cast_overflow, "float-cast") UBH(invalid_builtin, "invalid-builtin") UBH(builtin_unreachable, "unreachable")

/* run one primitive with the seam armed: 3 = undefined behaviour reported inside the primitive */
static int prim_guarded(const pc_t *pc, char *human, char *what)
{
    int r;
    if (setjmp(ub_jb))
    {
        snprintf(what, 320, "UBSan: %s at %s inside the library while running %s", ub_kind, ub_where, human);
        return 3;
    }
    ub_armed = 1;
    r = prim(pc, human, what);
    ub_armed = 0;
    return r;
}

static famstat_t *fam_get(const char *fam)
{
    int i;
    for (i = 0; i < B.nf; i++)
    {
        if (!strcmp(B.f[i].fam, fam))
        {
            return &B.f[i];
        }
    }
    if (B.nf < MAXFAM)
    {
        snprintf(B.f[B.nf].fam, sizeof(B.f[0].fam), "%s", fam);
        B.f[B.nf].cmp = B.f[B.nf].bad = B.f[B.nf].refused = 0;
        return &B.f[B.nf++];
    }
    return &B.f[MAXFAM - 1];
}

static const char *alg_label(const pc_t *pc); /* stable algorithm label for violation keys */
static const char *short_label(const pc_t *pc);

static void chk(const pc_t *pc, const char *fam)
{
    char human[160] = "", what[320] = "";
    famstat_t *f;
    int r;
    if (B.stop)
    {
        return;
    }
    if (++B.since_deadline_check >= 2048 && !g_replay_mode)
    {
        B.since_deadline_check = 0;
        if (mx_deadline_hit())
        {
            B.stop = 1;
            return;
        }
    }
    if (g_slot)
    {
        g_slot->pc = *pc;
        snprintf((char *) g_slot->fam, sizeof(g_slot->fam), "%s", fam);
        g_slot->active = 1;
    }
    r = prim_guarded(pc, human, what);
    if (g_slot)
    {
        g_slot->active = 0;
    }
    f = fam_get(fam);
    f->cmp++;
    if (r == 2)
    {
        f->refused++;
    }
    if (r == 1 || r == 3)
    {
        mx_result_t res;
        f->bad++;
        memset(&res, 0, sizeof(res));
        pc_desc(pc, res.desc, sizeof(res.desc), fam, human);
        res.violation = 1;
        res.nontrivial = 1;
        res.transitions = 1;
        snprintf(res.key, sizeof(res.key), "%s|%s", alg_label(pc), fam);
        if (r == 3)
        {
            snprintf(res.key, sizeof(res.key), "ubsan|%s|%s", ub_where, ub_kind);
        }
        snprintf(res.what, sizeof(res.what), "%s", what);
        snprintf(res.outcome, sizeof(res.outcome), "%.30s:%.18s:%s", short_label(pc), fam, r == 3 ? "UBSAN" : "MISMATCH");
        res.trace_hash = fnv1a(res.key, strlen(res.key), FNV0);
        if (g_replay_mode)
        {
            fprintf(stderr, "  VIOLATION key=%s desc=%s\n    %s\n", res.key, res.desc, res.what);
        }
        else
        {
            mx_record(&res);
        }
    }
}

/* enumerate the partitions of nu units for *pc (fields m,a,b are overwritten).
 * level: 0 whole + empty-call variants + all 1-cuts (+ all compositions if nu<=10)
 *        1 additionally all 2-cuts
 *        2 "edge" cuts only (long inputs): cut points from a fixed boundary set around multiples of blk */
static void parts(pc_t *pc, int nu, int level, int blk)
{
    int a, b;
    if (nu <= 10 && level != 2)
    {
        int lim = 1 << (nu > 1 ? nu - 1 : 0);
        pc->m = 2; pc->b = 0;
        for (a = 0; a < lim && !B.stop; a++)
        {
            pc->a = a;
            chk(pc, "comp");
        }
    }
    else if (level != 2)
    {
        pc->m = 0;
        pc->a = nu; pc->b = nu;
        chk(pc, "whole");
        for (a = 1; a < nu && !B.stop; a++)
        {
            pc->a = a; pc->b = nu;
            chk(pc, "1-cut");
        }
        if (level >= 1)
        {
            for (a = 1; a < nu && !B.stop; a++)
            {
                for (b = a + 1; b < nu; b++)
                {
                    pc->a = a; pc->b = b;
                    chk(pc, "2-cut");
                }
            }
        }
    }
    else
    {
        int e[16], ne = 0, c[12], j, l;
        c[0] = 1; c[1] = blk - 1; c[2] = blk; c[3] = blk + 1; c[4] = 2 * blk - 1; c[5] = 2 * blk; c[6] = 2 * blk + 1;
        c[7] = nu / 2; c[8] = nu - blk - 1; c[9] = nu - blk; c[10] = nu - blk + 1; c[11] = nu - 1;
        for (j = 0; j < 12; j++)
        {
            int dup = 0;
            if (c[j] < 1 || c[j] >= nu)
            {
                continue;
            }
            for (l = 0; l < ne; l++)
            {
                dup |= e[l] == c[j];
            }
            if (!dup)
            {
                e[ne++] = c[j];
            }
        }
        pc->m = 0; pc->a = nu; pc->b = nu;
        chk(pc, "whole");
        for (j = 0; j < ne && !B.stop; j++)
        {
            pc->a = e[j]; pc->b = nu;
            chk(pc, "edge-1-cut");
            for (l = 0; l < ne; l++)
            {
                if (e[l] > e[j])
                {
                    pc->a = e[j]; pc->b = e[l];
                    chk(pc, "edge-2-cut");
                }
            }
        }
        pc->b = nu;
    }
    /* zero-length calls at the start, in the middle and at the end */
    if (!B.stop)
    {
        pc->m = 1;
        pc->a = 0; pc->b = 0; chk(pc, "empty-call");
        pc->a = nu; pc->b = nu; chk(pc, "empty-call");
        pc->a = nu / 2; pc->b = nu / 2; chk(pc, "empty-call");
        pc->a = 0; pc->b = nu; chk(pc, "empty-call");
    }
    pc->m = 0; pc->a = nu; pc->b = nu;
}

#endif
